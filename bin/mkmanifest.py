#!/usr/bin/env python3
"""Writes /verif/MANIFEST.json from the table below (single source of truth for the check registry)."""
import json, subprocess

ALL = ["C%02d" % i for i in range(1, 21)]

# id -> (level category, technique, level text, level note, design ref)
CHECKS = {
 "C01": ("exploration", "metamorphic multi-process replay (replicas serving API reads / with upstream and late database failures) + race detector",
         "Independent fresh daemon processes (different hash seeds, GOMAXPROCS, upstream delays, time zones; one under the race detector) replay forged chains built to contain exact ties (equal staking stakes incl. the top stake above the cap, equal oversubscribed bank requests, >100-entry blocks); canonical dumps of all ledger tables must be byte-identical. Sampling of schedules/hash seeds, not enumeration: held-on-K-executions.",
         "Trusted: the lab's forge/fake factomd/dumper (self-checked: forged chains are parsed and Merkle-verified by the daemon's own factom client). Compressed era heights; averaging window 12. Every third replica answers read-only API requests between blocks; every third has a fake factomd failing every 29th entry request once and a database refusing the last statement of every fifth block once. One replica in six has one read of recorded rates fail in the PIP-10 era (by design that ends the daemon process); a fresh process finishes the chain on the same database.",
         "DESIGN.md §3 C01"),
 "C02": ("fault_enumeration", "crash-point enumeration: SIGKILL at SQL statement boundaries (small page cache, the daemon's own journal mode) + failing statements / upstream requests + fresh-process verifier",
         "The real daemon is SIGKILLed before/after the k-th database statement (BEGIN, COMMIT and pool reads included) of special blocks (every payout/one-time-adjustment/bank/snapshot kind) in rollback-journal and WAL mode; a fresh process checks integrity, recorded height, ledger == reference state of that height, contiguous height rows, and resumes. Quick = stratified by call site; thorough = every statement index of the special blocks.",
         "Process kill only (page cache survives), not power loss. Statement boundaries are the crash points; the wrapper driver is shown transparent by the self-check and opens the database with the journal mode and synchronous level the daemon itself chose. Every other crash point runs with an 8-page cache (dirty pages reach the file before COMMIT). A block also fails instead of the process dying: sampled statements, the first and last read outside the transaction of every call site, the first dblock request, an entry request.",
         "DESIGN.md §3 C02"),
 "C05": ("exploration", "metamorphic mutation of signed entries (bit flips + structural forgeries)",
         "Every single-bit flip of content/salt/RCD/signature of valid base entries (RCD-1 and RCD-e, transfer and conversion, salt window edges) plus structural forgeries are placed next to the originals; ledger with forgeries must equal ledger without; single-purpose senders give a direct positive control.",
         "ed25519/secp256k1 libraries trusted; the RCD-e boundary is judged as the pinned tree defines it (inert at the activation height itself). Mutations also insert/remove bytes of the content (whitespace at every position). Two directory blocks have a silent transaction chain and a foreign chain (id right after the transaction chain's) carrying a funded sender's batch signed for that chain. A chain that cannot be synced only with the forged entries added is a violation.",
         "DESIGN.md §3 C05"),
 "C06": ("exploration", "effect counting on single-purpose addresses + metamorphic first-occurrence-only replay",
         "Entries repeated at every placement relative to holding/execution/rejection/restart, in five eras (incl. the per-height PEG bank before V4); number of effects read from final balances (0 or 1) and, for conversions, the credited amount must equal the one recorded execution; blocks also fail once and are applied again (failed dblock fetch / late statement failure); chain with first occurrences only must give the same ledger.",
         "Every repeat must be inert, also after a rejection (the property's own observation point). A chain with repeats that stops at a block holding a copy, while the first-occurrence-only chain gets past that block, is a violation (the copy had an effect); any other stop is inconclusive here and C08's subject.",
         "DESIGN.md §3 C06"),
 "C08": ("exploration", "bounded-progress + crash monitor under a hostile-entry generator and under the rule checks' workloads",
         "34 kinds of hostile/malformed/duplicated entries on the three tracked chains are applied by the real daemon on top of adaptively forged ledgers in every era; a block must commit within 3 attempts and the process must survive (panics, log.Fatal and runtime fatals are observed, attributed and de-duplicated).",
         "Healthy fake factomd/database; Factom-level malformations out of scope; liveness restated as bounded progress. The workloads of the rule checks (C03, C04, C07, C11-C16, with blocks applied twice and process restarts) are run as well with bounded progress as the only oracle.",
         "DESIGN.md §3 C08"),
 "C09": ("exploration", "metamorphic restart placement (continuous vs restarted runs), incl. restarts around every activation and replays answering API requests between blocks",
         "Chains with ungraded blocks inside the averaging window and average-priced conversions are synced continuously and with clean restarts at chosen heights; per-height and final dumps must coincide. Thorough tier is exhaustive over single (gap, restart) placements in a 3-window span and adds chains at the real 288 window.",
         "Window shortened via the exported package variables except in the real-window chains; restart = cancel + new NewPegnetd on the same database. c09.api chains (an asset without an average, conversions of it waiting) are replayed by one process and by a new process before every block while both answer the same read-only API requests after every block.",
         "DESIGN.md §3 C09"),
 "C10": ("fault_enumeration", "single-fault injection at SQL statement / upstream request boundaries + operating-system write faults via strace + differential ledger",
         "One transient fault (statement returns an error instead of executing, or request answered by RPC error / HTTP 500 / truncated body / reset) per run on special blocks, plus sampled pairs; every state committed from the faulted block on must equal the fault-free reference; crash-stop after a fault is resumed by a fresh process. Quick = every distinct (call site, statement shape) and request kind; thorough = every index.",
         "Faults only at boundaries where the real system can fail; transient by construction. strace injection counts per thread: an OS-level case may inject a short burst instead of one failure, or strike at start-up (then the refusal to start is a stop like any other and a fresh process resumes). In part of the cases the upstream node is three blocks ahead when the fault strikes (the daemon applies several blocks in one job); block-level requests also fail twice in a row. A daemon that stops asking for blocks while its database is behind (80 idle polls), or whose sync goroutine is parked for minutes inside daemon code, counts as never recovering.",
         "DESIGN.md §3 C10"),
 "C03": ("exploration", "one-step reference-model monitor (two-pass funds rule) over adaptive workloads",
         "Well-signed batches with amounts at balance-1/balance/balance+1, several draws on one balance, self-credits, conversion-then-spend, zero and 2^63-1 amounts are considered by the real daemon on adaptively forged ledgers in every era; after each block every balance, the recorded status and the sign of every balance column are compared with the reference rule re-based on the observed previous state.",
         "Reference rules written from the statement; signatures/timestamps decided by fat2 here (C05 judges them), the form and amounts by the lab's strict reader. In every second profile blocks fail once and are applied again (failed dblock fetch / last statement before COMMIT, at every activation height); every third profile answers read-only API requests between blocks; in every fourth a new daemon process takes over the database before every activation height, every snapshot height, the heights after them and one height in five. A chain that stops with the daemon's 'insufficient balance' error is a C03 violation (an overdraft reached the debit); other stops are inconclusive here and C08's subject. The same holds for all one-step model checks (C04, C07, C11-C17).",
         "DESIGN.md §3 C03"),
 "C04": ("exploration", "one-step supply/balance conservation monitor against a reference model",
         "Per block and asset the observed supply delta must equal the sum of the block's issuance/destruction events computed by the reference rules, and every address/asset balance must equal the prediction (nobody else changes; debit == credits), on busy mixed workloads crossing all eras.",
         "Grader library verdicts taken as given; burn-address semantics resolved from code where the statement is silent (documented).",
         "DESIGN.md §3 C04"),
 "C07": ("exploration", "one-step conversion oracle (big-integer floor(in*S/D), next-rated-block rule) + value bound assertion",
         "Thousands of conversions over all asset pairs, tiny to full-balance amounts, drifting rates and ungraded gaps: execution block, credited amount and recorded to_amount must equal the rule with the executing block's rates and (from PIP-10) min/max with the rolling average recomputed from recorded rates; out*D_spot <= in*S_spot asserted.",
         "Averages defined over the height window of recorded rates (the definition the C09 fix settled); window 12 in compressed chains.",
         "DESIGN.md §3 C07"),
 "C11": ("exploration", "one-step reward/burn oracle using the grader library as verdict",
         "OPR/SPR sets of every shape and factoid blocks with burns and near-misses; PEG/pFCT deltas per address and coinbase rows must equal the payouts of the library-graded winners (top-100 filter on the previous state) and the valid burns.",
         "Grading algorithm = pegnet grader library output on the same entries; rank-100 ties not judged. V1-era blocks with 10..24 records, repeated staker ids (junk in front of the genuine record, two valid records of one holder), two burns of one address in a block are part of the workload.",
         "DESIGN.md §3 C11"),
 "C12": ("exploration", "one-step rate oracle + immutability monitor",
         "pn_rate rows of each block must be exactly those derived from winner[0] of the OPR and SPR grades under the era's band rule and PEG pricing phase; unrated blocks have no rows; earlier rows never change.",
         "Band computed with the same floating-point formula the statement implies; pre-2.0.2 out-of-band shape is a recorded finding (tagged). With `retries`, reads outside the block's transaction (previous winners, stakers' rich list) fail once per block as well.",
         "DESIGN.md §3 C12"),
 "C13": ("exploration", "one-step admission oracle at activation boundaries",
         "Conversions into every destination class submitted at activation-3..+2 of every activation from dedicated funded addresses; executed / reject code / dropped must match the statement's admission rule.",
         "Covering sample of destination classes in quick, more seeds in thorough. One profile places the small-asset/PEG one-way activation before 2.0 (a configuration the daemon's testing flags produce); in half of the profiles the blocks at the one-way activation heights have no rates. A rate that is zero by the rules stays zero for the admission rule whatever the block recorded.",
         "DESIGN.md §3 C13"),
 "C14": ("exploration", "one-step holder-payout oracle at snapshot heights",
         "Holder sets of 8-300 addresses, totals below/around/above the cap, ties, movements between snapshots; PEG deltas at snapshot heights must equal the min-of-two-snapshots, pUSD-valued, capped proportional allocation with the dust rule.",
         "Snapshot copies kept by the lab itself (not the snapshot_* tables).",
         "DESIGN.md §3 C14"),
 "C15": ("exploration", "one-step literal-table oracle over activation alignments (+ literal-mainnet chain in thorough)",
         "Developer table, mint table and special addresses copied literally into the lab; chains with random alignments of activations to the 144 cadence and funded special addresses; thorough adds the literal mainnet heights.",
         "Alignments with recorded mock-txid collisions excluded from the default draw; one tagged alignment scenario.",
         "DESIGN.md §3 C15"),
 "C16": ("exploration", "one-step bank oracle (proportional allocation, dust, refund, bank row)",
         "PEG request sets of 0..40 requests around the bank size, piled over ungraded blocks, across the V4 switch; yields, refunds, recorded amounts and pn_bank rows compared with the rule.",
         "Mixed PEG-request batches are a recorded finding and not generated (tagged scenario only). Tied largest requests sit at different positions of multi-request batches (dust goes to the lowest transaction id).",
         "DESIGN.md §3 C16"),
 "C17": ("exploration", "status/amount monitor + whole-history fold + paged enumeration through the real JSON-RPC server",
         "Per batch status and recorded amounts vs. the reference verdict; folding all history rows plus row-less scheduled adjustments must reproduce every balance; get-transactions paged by address/hash/height/txid asc/desc must return each action exactly once with a correct count.",
         "Runs on chains that produce every verdict code; API on loopback. One profile (more in thorough) fails history writes once per block, the payout rows of snapshot blocks included: the block is applied again and history and ledger must still agree.",
         "DESIGN.md §3 C17"),
 "C18": ("exploration", "Go race detector + differential ledger + committed-state history check (porcupine) under hostile clients (hang-ups, failing reads)",
         "The real JSON-RPC server and the real sync loop run concurrently under -race with 12-32 clients cycling all read methods and injected delays; race reports with daemon frames, runtime fatals, ledger difference against the no-load run, and any response (part) that shows a height whose COMMIT was not yet issued are violations; histories are also checked with porcupine against a committed-height register model.",
         "Schedules sampled; stale-but-committed answers are allowed (the property forbids uncommitted state, not staleness); cache-derived pUSD fields, the global rich list and get-miner-distribution's stopheight are not compared (multi-read answers may mix two committed states). Impatient clients hang up mid-request; a few per mille of the API handlers' reads fail by injection; the sequential reference pass is judged too.",
         "DESIGN.md §3 C18"),
 "C19": ("exploration", "bounded-exhaustive session histories against the statement as oracle",
         "Histories of up to 3 sessions (build version incl. legacy, blocks synced by the real DBlockSync) x fork tables with a fork at every height within +-1 of a session boundary; every start is a real NewPegnetd; accept/refuse compared with the ground truth of which build synced which height; literal fork table included.",
         "Builds predating version tracking are emulated by deleting the pn_sync_version rows of their own heights and may occur at any position of a history; forks never below the genesis height. In every fifth history the write of one block's version row fails once per tracking session (last block, first block or a fork height; the block is rolled back and applied again).",
         "DESIGN.md §3 C19"),
 "C20": ("exploration", "differential generation-based fuzzing against a strict reference reader and exact arithmetic",
         "Grammar-generated and mutated batch contents (signed, so content rules decide) compared one-way with a strict FAT-2 reader, re-encode/decode round trips of every accepted batch, and decimal strings compared with big-integer conversion.",
         "Case-variant keys, batch-level metadata, null amounts: recorded, not judged. Tickers must be written literally; outputs must add up to the input without wrap-around, each and their sum within int64. Refusing a canonical batch is not judged (the statement forbids accepting, not refusing); the decoded value of an accepted batch must equal the strict reader's (kinds such as twin transfers with equal amounts exist for that).",
         "DESIGN.md §3 C20"),
}

NOT_YET = "check not built yet in this round; no claim is made"

def main():
    head = subprocess.run(["git", "-C", "/repo", "log", "--format=%H %s"], capture_output=True, text=True).stdout.splitlines()
    hook_commits = [l.split()[0] for l in head if l.split(" ", 1)[1].startswith("verif-hook:")]
    checks = []
    for pid in ALL:
        if pid not in CHECKS:
            continue
        cat, tech, text, note, ref = CHECKS[pid]
        checks.append({
            "property_id": pid,
            "quick_cmd": "bin/check.sh %s quick" % pid,
            "thorough_cmd": "bin/check.sh %s thorough" % pid,
            "evidence_file": "/verif/evidence/%s.json" % pid,
            "replay_cmd_template": "bin/check.sh %s quick -replay {path}" % pid,
            "engine": "lab",
            "level_claimed": {"category": cat, "text": text, "design_ref": ref},
            "level_note": note,
            "technique": tech,
        })
    m = {
        "version": 1,
        "setup_cmd": "bin/setup.sh",
        "hooks": {
            "guard": "verif",
            "enable": "go build -tags verif (bin/build.sh builds /verif/lab against /repo's working tree via a replace directive)",
            "baseline_off_cmd": "cd /repo && GOFLAGS=-mod=mod GOPROXY=off GOSUMDB=off go test -vet=off -count=1 ./...",
            "source_commits": hook_commits,
            "add_only": True,
        },
        "engines": [{
            "name": "lab", "path": "/verif/lab",
            "serves_properties": sorted(CHECKS.keys()),
            "kind_free_text": "Go runtime-monitoring lab: forged Factom chains served by an in-process fake factomd to the real node.NewPegnetd/DBlockSync; sqlite3_verif wrapper driver observing/faulting/killing at every SQL statement; canonical ledger dumper; reference rules; per-property monitors; child process per execution; Go race detector binary for concurrency properties",
        }],
        "checks": checks,
        "not_applicable": [{"property_id": p, "reason": NOT_YET} for p in ALL if p not in CHECKS],
        "notes": "Exit codes of every check: 0 held on everything explored, 1 VIOLATION (line printed, replay file written), 3 inconclusive (watchdog / too few observations; never folded into pass). KNOWN-FINDING lines come from /verif/known_findings.json.",
    }
    json.dump(m, open("/verif/MANIFEST.json", "w"), indent=1)
    print("MANIFEST.json written:", len(checks), "checks,", len(m["not_applicable"]), "not claimed")

if __name__ == "__main__":
    main()
