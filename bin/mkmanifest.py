#!/usr/bin/env python3
"""Writes /verif/MANIFEST.json from the table below (single source of truth for the check registry)."""
import json, subprocess

ALL = ["C%02d" % i for i in range(1, 21)]

# id -> (level category, technique, level text, level note, design ref)
CHECKS = {
 "C01": ("exploration", "metamorphic multi-process replay + race detector",
         "Independent fresh daemon processes (different hash seeds, GOMAXPROCS, upstream delays, time zones; one under the race detector) replay forged chains built to contain exact ties (equal staking stakes incl. the top stake above the cap, equal oversubscribed bank requests, >100-entry blocks); canonical dumps of all ledger tables must be byte-identical. Sampling of schedules/hash seeds, not enumeration: held-on-K-executions.",
         "Trusted: the lab's forge/fake factomd/dumper (self-checked: forged chains are parsed and Merkle-verified by the daemon's own factom client). Compressed era heights; averaging window 12.",
         "DESIGN.md §3 C01"),
}

NOT_YET = "check not built yet in this round; no claim is made"

def main():
    head = subprocess.run(["git", "-C", "/repo", "log", "--format=%H %s"], capture_output=True, text=True).stdout.splitlines()
    hook_commits = [l.split()[0] for l in head if l.split(" ", 1)[1].startswith("verif-hook:")]
    checks = []
    for pid in ALL:
        if pid not in CHECKS:
            continue
        cat, tech, text, note, ref = CHECKS[pid]
        checks.append({
            "property_id": pid,
            "quick_cmd": "bin/check.sh %s quick" % pid,
            "thorough_cmd": "bin/check.sh %s thorough" % pid,
            "evidence_file": "/verif/evidence/%s.json" % pid,
            "replay_cmd_template": "bin/check.sh %s quick -replay {path}" % pid,
            "engine": "lab",
            "level_claimed": {"category": cat, "text": text, "design_ref": ref},
            "level_note": note,
            "technique": tech,
        })
    m = {
        "version": 1,
        "setup_cmd": "bin/setup.sh",
        "hooks": {
            "guard": "verif",
            "enable": "go build -tags verif (bin/build.sh builds /verif/lab against /repo's working tree via a replace directive)",
            "baseline_off_cmd": "cd /repo && GOFLAGS=-mod=mod GOPROXY=off GOSUMDB=off go test -vet=off -count=1 ./...",
            "source_commits": hook_commits,
            "add_only": True,
        },
        "engines": [{
            "name": "lab", "path": "/verif/lab",
            "serves_properties": sorted(CHECKS.keys()),
            "kind_free_text": "Go runtime-monitoring lab: forged Factom chains served by an in-process fake factomd to the real node.NewPegnetd/DBlockSync; sqlite3_verif wrapper driver observing/faulting/killing at every SQL statement; canonical ledger dumper; reference rules; per-property monitors; child process per execution; Go race detector binary for concurrency properties",
        }],
        "checks": checks,
        "not_applicable": [{"property_id": p, "reason": NOT_YET} for p in ALL if p not in CHECKS],
        "notes": "Exit codes of every check: 0 held on everything explored, 1 VIOLATION (line printed, replay file written), 3 inconclusive (watchdog / too few observations; never folded into pass). KNOWN-FINDING lines come from /verif/known_findings.json.",
    }
    json.dump(m, open("/verif/MANIFEST.json", "w"), indent=1)
    print("MANIFEST.json written:", len(checks), "checks,", len(m["not_applicable"]), "not claimed")

if __name__ == "__main__":
    main()
