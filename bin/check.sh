#!/bin/bash
# usage: check.sh <ID> <quick|thorough> [extra lab args]
# exit 0 = held, 1 = VIOLATION, 3 = inconclusive
. /verif/bin/env.sh
ID="$1"; TIER="${2:-quick}"; shift; shift
case "$ID" in
  C01|C10|C18) /verif/bin/build.sh all || { echo "build failed"; exit 2; } ;;
  *) /verif/bin/build.sh || { echo "build failed"; exit 2; } ;;
esac
cd /verif
exec /verif/.build/lab check "$ID" -tier "$TIER" "$@"
