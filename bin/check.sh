#!/bin/bash
# usage: check.sh <ID> <quick|thorough> [extra lab args]
# exit 0 = held, 1 = VIOLATION, 3 = inconclusive
. "$(dirname "${BASH_SOURCE[0]}")/env.sh"
ID="$1"; TIER="${2:-quick}"; shift; shift
case "$ID" in
  C01|C10|C18) "$VERIF_ROOT/bin/build.sh" all || { echo "build failed"; exit 2; } ;;
  *) "$VERIF_ROOT/bin/build.sh" || { echo "build failed"; exit 2; } ;;
esac
if [ "$ID" = "C08" ] && [ "$TIER" = "thorough" ]; then
  "$VERIF_ROOT/bin/build.sh" asan || echo "asan build failed (the ASan part of C08 will be reported inconclusive)"
fi
cd "$VERIF_ROOT"
exec "$VERIF_ROOT/.build/lab" check "$ID" -tier "$TIER" "$@"
