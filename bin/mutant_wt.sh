#!/bin/bash
# usage: mutant_wt.sh <worktree with the change applied> <check id>...
# Like mutant.sh, but never touches /repo: builds the lab (plain + race) against the given scratch
# worktree through a temporary -modfile whose replace points at it, runs the given checks (quick tier
# unless TIER is set) with evidence redirected to a scratch dir, prints the verdicts. Used while a long
# run against /repo is in progress.
WT="$1"; shift
. "$(dirname "${BASH_SOURCE[0]}")/env.sh"
OUT=$(mktemp -d /tmp/mutwt-XXXX)
cp "$VERIF_ROOT/known_findings.json" $OUT/
LAB_SRC="${LAB_SRC:-$VERIF_ROOT/lab}"   # a frozen copy of the lab sources may be given (long regressions)
sed "s#=> /repo#=> $WT#" "$LAB_SRC/go.mod" > $OUT/go.mod; cp "$LAB_SRC/go.sum" $OUT/go.sum
( cd "$LAB_SRC" && go build -modfile=$OUT/go.mod -tags verif -o $OUT/lab ./cmd/lab 2>/dev/null && \
  go build -modfile=$OUT/go.mod -race -tags verif -o $OUT/lab-race ./cmd/lab 2>/dev/null ) || echo "BUILD FAILED"
for id in "$@"; do
  s=$(date +%s)
  res=$(cd "$VERIF_ROOT" && VERIF_DIR=$OUT ${VERIF_SEED:+VERIF_SEED=$VERIF_SEED} $OUT/lab check $id -tier ${TIER:-quick} 2>&1)
  echo "$id $(echo "$res" | grep -E '^(HELD|VIOLATED|INCONCLUSIVE)' | tail -1) [$(( $(date +%s)-s ))s]"
  echo "$res" | grep -E 'signature:' | sort | uniq -c | sort -rn | head -6 | cut -c1-230
  echo "$res" | grep -iE '^ *inconclusive' | head -4 | cut -c1-400
done
rm -rf $OUT
