#!/bin/bash
# usage: confirm_mutant.sh <worktree> <demo-file> <dest-path-in-worktree> <go test pkg> [-run regex]
# Confirms a seeded change: builds, runs the existing suite, runs the demonstration with the change
# (must fail) and without it (must pass). The worktree is left with the change applied.
WT="$1"; DEMO="$2"; DEST="$3"; PKG="$4"; RUN="${5:-.}"
. /verif/bin/env.sh
cd "$WT" || exit 2
git diff --quiet && { echo "no change applied in worktree"; exit 2; }
go build ./... 2>&1 | grep -v 'sqlite3\|standin\|pNew\|\^' ; echo "build exit: ${PIPESTATUS[0]}"
go test -vet=off -count=1 ./... 2>&1 | grep -E '^(ok|FAIL|---)' | grep -v 'Convert_Random' | head -20
cp "$DEMO" "$DEST"
echo "== demo WITH change (expect FAIL)"; go test -vet=off -count=1 -run "$RUN" "$PKG" 2>&1 | grep -E '^(ok|FAIL|--- FAIL|panic)' | head -5
TMPD=$(mktemp /tmp/confirm-XXXX.diff); git diff > $TMPD; git apply -R $TMPD   # (not git stash: the stash is shared by all worktrees)
echo "== demo WITHOUT change (expect ok)"; go test -vet=off -count=1 -run "$RUN" "$PKG" 2>&1 | grep -E '^(ok|FAIL|--- FAIL|panic)' | head -5
git apply $TMPD; rm -f $TMPD
rm -f "$DEST"
git status --short | head
