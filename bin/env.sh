# sourced by every script: offline Go environment
export GOFLAGS=-mod=mod GOPROXY=off GOSUMDB=off GOTOOLCHAIN=local
export CGO_ENABLED=1
export LXRBITSIZE=8
export VERIF_DIR="${VERIF_DIR:-/verif}"
