# sourced by every script: offline Go environment, and the root of this checkout of /verif
# (the scripts work from any copy of the tree, e.g. a `vp run` snapshot)
export GOFLAGS=-mod=mod GOPROXY=off GOSUMDB=off GOTOOLCHAIN=local
export CGO_ENABLED=1
export LXRBITSIZE=8
VERIF_ROOT="$(cd "$(dirname "${BASH_SOURCE[0]}")/.." && pwd)"
export VERIF_ROOT
export VERIF_DIR="${VERIF_DIR:-$VERIF_ROOT}"
