#!/bin/bash
# usage: mutant.sh <patch.diff> <check id>...   — applies a seeded change to /repo, runs the given
# checks (quick tier) with evidence redirected to a scratch dir, prints the verdicts, and undoes the change.
PATCH="$1"; shift
. "$(dirname "${BASH_SOURCE[0]}")/env.sh"
if ! git -C /repo diff --quiet; then echo "repo working tree not clean"; exit 2; fi
git -C /repo apply "$PATCH" || { echo "patch does not apply"; exit 2; }
OUT=$(mktemp -d /tmp/mutrun-XXXX)
cp "$VERIF_ROOT/known_findings.json" $OUT/
"$VERIF_ROOT/bin/build.sh" all >/dev/null 2>&1 || echo "BUILD FAILED"
for id in "$@"; do
  s=$(date +%s)
  res=$(cd "$VERIF_ROOT" && VERIF_DIR=$OUT ${VERIF_SEED:+VERIF_SEED=$VERIF_SEED} "$VERIF_ROOT/.build/lab" check $id -tier ${TIER:-quick} 2>&1)
  echo "$id $(echo "$res" | grep -E '^(HELD|VIOLATED|INCONCLUSIVE)' | tail -1) [$(( $(date +%s)-s ))s]"
  echo "$res" | grep -E 'signature:' | sort | uniq -c | sort -rn | head -6 | cut -c1-230
done
git -C /repo checkout -- .
"$VERIF_ROOT/bin/build.sh" all >/dev/null 2>&1
rm -rf $OUT
