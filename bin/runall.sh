#!/bin/bash
# runs every check's quick (or thorough) command sequentially; prints one verdict line per check
TIER="${1:-quick}"
for i in $(seq -w 1 20); do
  id="C$i"
  s=$(date +%s)
  out=$(bin/check.sh $id $TIER 2>&1); code=$?
  e=$(( $(date +%s) - s ))
  echo "$id exit=$code ${e}s $(echo "$out" | grep -E '^(HELD|VIOLATED|INCONCLUSIVE)' | tail -1)"
  echo "$out" | grep -E 'VIOLATION|KNOWN-FINDING|inconclusive:' | cut -c1-220
done
