#!/bin/bash
# usage: runall.sh [quick|thorough] [ID...]  — runs the checks' commands sequentially (all 20 by default);
# prints one verdict line per check
TIER="${1:-quick}"; shift
IDS=("$@"); [ ${#IDS[@]} -eq 0 ] && IDS=($(seq -f 'C%02g' 1 20))
cd "$(dirname "${BASH_SOURCE[0]}")/.."
for id in "${IDS[@]}"; do
  s=$(date +%s)
  out=$(bin/check.sh $id $TIER 2>&1); code=$?
  e=$(( $(date +%s) - s ))
  echo "$id exit=$code ${e}s $(echo "$out" | grep -E '^(HELD|VIOLATED|INCONCLUSIVE)' | tail -1)"
  echo "$out" | grep -E 'VIOLATION|KNOWN-FINDING|inconclusive:' | cut -c1-220
done
