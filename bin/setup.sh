#!/bin/bash
# Run once after a fresh restore, offline: builds the lab (plain and -race) from files on disk and
# pre-generates the 256-byte LXR table used by the lab's proof-of-work.
set -e
. /verif/bin/env.sh
/verif/bin/build.sh all
/verif/.build/lab selfcheck
