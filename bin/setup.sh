#!/bin/bash
# Run once after a fresh restore, offline: builds the lab (plain and -race) from files on disk and
# pre-generates the 256-byte LXR table used by the lab's proof-of-work.
set -e
. "$(dirname "${BASH_SOURCE[0]}")/env.sh"
"$VERIF_ROOT/bin/build.sh" all
"$VERIF_ROOT/.build/lab" selfcheck
