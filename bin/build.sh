#!/bin/bash
# Rebuilds the lab binaries against /repo's CURRENT working tree (replace => /repo in lab/go.mod),
# with the verif build tag on. Go's build cache makes this incremental.
#   build.sh        plain binary
#   build.sh all    plain + -race binary
#   build.sh asan   plain + AddressSanitizer binary (C08 thorough)
set -e
. "$(dirname "${BASH_SOURCE[0]}")/env.sh"
cd "$VERIF_ROOT/lab"
mkdir -p "$VERIF_ROOT/.build"
exec 9>"$VERIF_ROOT/.build/.lock"
flock 9
filter() { grep -v 'sqlite3-binding\|standin\|pNew\|\^\|go-sqlite3' >&2 || true; }
go build -tags verif -o "$VERIF_ROOT/.build/lab" ./cmd/lab 2> >(filter)
if [ "$1" = "race" ] || [ "$1" = "all" ]; then
  go build -race -tags verif -o "$VERIF_ROOT/.build/lab-race" ./cmd/lab 2> >(filter)
fi
if [ "$1" = "asan" ]; then
  go build -asan -tags verif -o "$VERIF_ROOT/.build/lab-asan" ./cmd/lab 2> >(filter)
fi
