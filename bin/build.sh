#!/bin/bash
# Rebuilds the lab binaries against /repo's CURRENT working tree (replace => /repo in lab/go.mod),
# with the verif build tag on. Go's build cache makes this incremental.
set -e
. /verif/bin/env.sh
cd /verif/lab
mkdir -p /verif/.build
exec 9>/verif/.build/.lock
flock 9
go build -tags verif -o /verif/.build/lab ./cmd/lab 2> >(grep -v 'sqlite3-binding\|standin\|pNew\|\^\|go-sqlite3' >&2)
if [ "$1" = "race" ] || [ "$1" = "all" ]; then
  go build -race -tags verif -o /verif/.build/lab-race ./cmd/lab 2> >(grep -v 'sqlite3-binding\|standin\|pNew\|\^\|go-sqlite3' >&2)
fi
