#!/usr/bin/env python3
import json, sys, glob, jsonschema
jsonschema.validate(json.load(open('/verif/MANIFEST.json')), json.load(open('/root/.vp/MANIFEST.schema.json')))
print("MANIFEST ok")
es = json.load(open('/root/.vp/EVIDENCE.schema.json'))
for f in sorted(glob.glob('/verif/evidence/*.json')):
    try:
        jsonschema.validate(json.load(open(f)), es); print("ok", f)
    except Exception as e:
        print("INVALID", f, str(e)[:300])
