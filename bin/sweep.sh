#!/bin/bash
# usage: sweep.sh <tier> <seed>... [-- <check id>...]  — runs checks at other seeds with evidence redirected
# to a scratch directory (the committed evidence stays the seed-1 run); prints one verdict line per run.
. "$(dirname "${BASH_SOURCE[0]}")/env.sh"
TIER="$1"; shift
SEEDS=(); while [ $# -gt 0 ] && [ "$1" != "--" ]; do SEEDS+=("$1"); shift; done
[ "$1" = "--" ] && shift
IDS=("$@"); [ ${#IDS[@]} -eq 0 ] && IDS=($(seq -f 'C%02g' 1 20))
"$VERIF_ROOT/bin/build.sh" all >/dev/null 2>&1 || { echo "build failed"; exit 2; }
OUT=$(mktemp -d /tmp/sweep-XXXX); cp "$VERIF_ROOT/known_findings.json" $OUT/
cd "$VERIF_ROOT"
for seed in "${SEEDS[@]}"; do for id in "${IDS[@]}"; do
  s=$(date +%s)
  res=$(VERIF_DIR=$OUT VERIF_SEED=$seed "$VERIF_ROOT/.build/lab" check $id -tier $TIER 2>&1); code=$?
  echo "seed=$seed $id exit=$code $(echo "$res" | grep -E '^(HELD|VIOLATED|INCONCLUSIVE)' | tail -1) [$(( $(date +%s)-s ))s]"
  [ $code -ne 0 ] && echo "$res" | grep -E 'signature:|inconclusive' | sort | uniq -c | sort -rn | head -8 | cut -c1-260
done; done
rm -rf $OUT
