#!/bin/bash
# usage: mutant_regress.sh [-j N] [seeded/<id>...]  — re-runs every seeded change (all by default) against the
# CURRENT checks: a scratch worktree of /repo per change (patch applied with --3way), the lab built against it,
# the quick tier of the checks listed in meta.json "caught_by". Prints one line per (change, check); exit 1 if a
# change listed as caught is no longer reported as VIOLATED. Nothing is written into /repo's working tree.
. "$(dirname "${BASH_SOURCE[0]}")/env.sh"
J=3; if [ "$1" = "-j" ]; then J=$2; shift; shift; fi
LIST=("$@"); [ ${#LIST[@]} -eq 0 ] && LIST=($(ls -d "$VERIF_ROOT"/seeded/M*/))
WT=$(mktemp -d /tmp/mregress-XXXX)
cp -r "$VERIF_ROOT/lab" $WT/labsrc; export LAB_SRC=$WT/labsrc   # the lab as it is now, whatever is edited meanwhile
one(){
  d=${1%/}; id=$(basename $d); w=$WT/$id
  checks=$(python3 -c "import json;print(' '.join(json.load(open('$d/meta.json'))['caught_by']))")
  git -C /repo worktree add -q --detach $w HEAD 2>/dev/null || { echo "$id worktree failed"; return; }
  ok=0
  for pf in $d/patch.diff $(ls $d/patch-on-*.diff 2>/dev/null); do   # re-created patches for changes whose code was touched by a later fix
    if (cd $w && git reset -q --hard && (git apply $pf 2>/dev/null || (git apply --3way $pf >/dev/null 2>&1 && [ -z "$(git diff --name-only --diff-filter=U)" ]))); then ok=1; break; fi
  done
  if [ $ok = 0 ]; then
    if [ -f $d/SUPERSEDED ]; then echo "$id superseded: $(head -1 $d/SUPERSEDED)"; else echo "$id PATCH-DOES-NOT-APPLY"; fi
    git -C /repo worktree remove --force $w; return
  fi
  (cd $w && go build ./... >/dev/null 2>&1) || { echo "$id DOES-NOT-BUILD"; git -C /repo worktree remove --force $w; return; }
  "$VERIF_ROOT/bin/mutant_wt.sh" $w $checks 2>&1 | grep -E '^C[0-9]+ ' | while read line; do echo "$id $line" | cut -c1-150; done
  git -C /repo worktree remove --force $w
}
export -f one; export WT VERIF_ROOT
printf '%s\n' "${LIST[@]}" | xargs -P $J -I{} bash -c 'one {}'
git -C /repo worktree prune; rm -rf $WT
