module verif/lab

go 1.22

require (
	github.com/Factom-Asset-Tokens/factom v0.0.0-20191114224337-71de98ff5b3e
	github.com/anishathalye/porcupine v1.3.0
	github.com/mattn/go-sqlite3 v1.11.0
	github.com/pegnet/pegnet v0.5.1-0.20210225213341-a476b4b2cc0f
	github.com/pegnet/pegnetd v0.0.0
	github.com/sirupsen/logrus v1.4.2
	github.com/spf13/viper v1.4.0
)

require (
	github.com/AdamSLevy/go-merkle v0.0.0-20190611101253-ca33344a884d // indirect
	github.com/AdamSLevy/jsonrpc2/v13 v13.0.1 // indirect
	github.com/Factom-Asset-Tokens/base58 v0.0.0-20181227014902-61655c4dd885 // indirect
	github.com/FactomProject/basen v0.0.0-20150613233007-fe3947df716e // indirect
	github.com/FactomProject/btcutil v0.0.0-20160826074221-43986820ccd5 // indirect
	github.com/FactomProject/btcutilecc v0.0.0-20130527213604-d3a63a5752ec // indirect
	github.com/FactomProject/ed25519 v0.0.0-20150814230546-38002c4fe7b6 // indirect
	github.com/FactomProject/factomd v6.3.2+incompatible // indirect
	github.com/FactomProject/go-bip32 v0.3.5 // indirect
	github.com/FactomProject/go-bip39 v0.3.5 // indirect
	github.com/FactomProject/goleveldb v0.2.2-0.20170418171130-e7800c6976c5 // indirect
	github.com/btcsuitereleases/btcutil v0.0.0-20150612230727-f2b1058a8255 // indirect
	github.com/ethereum/go-ethereum v1.9.9 // indirect
	github.com/fsnotify/fsnotify v1.4.7 // indirect
	github.com/golang/protobuf v1.3.2 // indirect
	github.com/hashicorp/hcl v1.0.0 // indirect
	github.com/magiconair/properties v1.8.0 // indirect
	github.com/mitchellh/mapstructure v1.1.2 // indirect
	github.com/pegnet/LXRHash v0.0.0-20191028162532-138fe8d191a2 // indirect
	github.com/pelletier/go-toml v1.2.0 // indirect
	github.com/rs/cors v1.7.0 // indirect
	github.com/spf13/afero v1.1.2 // indirect
	github.com/spf13/cast v1.3.0 // indirect
	github.com/spf13/cobra v0.0.5 // indirect
	github.com/spf13/jwalterweatherman v1.0.0 // indirect
	github.com/spf13/pflag v1.0.3 // indirect
	golang.org/x/crypto v0.0.0-20190701094942-4def268fd1a4 // indirect
	golang.org/x/sys v0.0.0-20190813064441-fde4db37ae7a // indirect
	golang.org/x/text v0.3.2 // indirect
	gopkg.in/yaml.v2 v2.2.2 // indirect
)

replace github.com/pegnet/pegnetd => /repo

replace github.com/Factom-Asset-Tokens/factom => github.com/Emyrk/factom v0.0.0-20200113153851-17d98c31e1bd

replace crawshaw.io/sqlite => github.com/AdamSLevy/sqlite v0.1.3-0.20191014215059-b98bb18889de

replace github.com/spf13/pflag v1.0.3 => github.com/AdamSLevy/pflag v1.0.4
