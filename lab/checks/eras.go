package checks

import (
	"math/rand"

	"verif/lab/forge"
)

// RandomEras draws a compressed era layout: mainnet order and equalities are kept, gaps and the
// alignment to the 144-block cadence come from the PRNG. With avoidKnown the alignments that hit
// the recorded burn-nullify mock-txid collisions (DESIGN.md §7 #17) are excluded.
func RandomEras(rng *rand.Rand, avoidKnown bool) forge.Eras {
	for {
		base := uint32(1000 + rng.Intn(144))
		g := func(lo, hi int) uint32 { return uint32(lo + rng.Intn(hi-lo+1)) }
		gaps := [16]uint32{g(3, 8), g(3, 8), g(8, 12), g(4, 10), g(4, 10), g(10, 16), g(12, 24), g(20, 90), g(20, 60), g(10, 30), g(8, 20), g(8, 24)}
		e := forge.ErasCompressed(base, gaps)
		if avoidKnown {
			if m := e.V20Dev % 144; m < 62 {
				continue
			}
		}
		return e
	}
}

// SecondSnapshot returns the second snapshot height at or after 2.0 (the first one that pays).
func SecondSnapshot(e forge.Eras) uint32 {
	first := ((e.V20 + 143) / 144) * 144
	return first + 144
}
