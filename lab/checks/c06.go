package checks

import (
	"encoding/json"
	"errors"
	"fmt"
	"math/rand"
	"path/filepath"

	"github.com/Factom-Asset-Tokens/factom"
	"github.com/pegnet/pegnetd/fat/fat2"
	"github.com/pegnet/pegnetd/node"
	"verif/lab/forge"
	"verif/lab/gen"
	"verif/lab/harness"
	"verif/lab/orch"
)

// C06 At-most-once execution. Every test entry has a single-purpose sender and recipient, so
// the number of times it took effect can be read off the final balances. Repeats are placed in
// the same block, in later blocks, while the first copy is pending, after it executed and after
// it was rejected (each reject code). A second chain with the first occurrences only must give
// the same ledger wherever the first copy executed or was a held conversion.

type c06Params struct {
	Seed int64  `json:"seed"`
	Era  string `json:"era"` // "early" (before the bank), "bank", "v20", "pip10"
}

func init() {
	registry["C06"] = checkC06
	orch.Register("c06.run", c06Run)
}

type c06Case struct {
	Name    string
	Kind    string // "transfer" | "conversion"
	S, R    forge.Key
	Fund    uint64 // pUSD given to S before the test
	Amount  uint64
	Conv    fat2.PTicker
	At      []uint32 // heights where the entry is written (first = original)
	Times   []int    // copies per height
	FundAt  uint32   // optional later top-up of S (for rejected-then-funded cases)
	FundAmt uint64
	// expectations
	MustExecute  bool // first copy is valid and funded: exactly once
	MayExecute   bool // at most once, either outcome allowed (rejected transfer repeated after funding)
	MustNotExec  bool // must never execute (rejected conversion is considered exactly once)
	Metamorphic  bool // repeats must be totally inert: included in the first-occurrence-only comparison
	FundBetween  bool // the top-up entry sits between the two copies inside one block
	entry        forge.Entry
}

func c06Run(j *orch.Job, r *orch.Result) error {
	var p c06Params
	json.Unmarshal(j.Params, &p)
	rng := rand.New(rand.NewSource(p.Seed))
	e := RandomEras(rng, true)
	if p.Era == "pip10" {
		e = LateEras(1070)
	}
	var T uint32
	switch p.Era {
	case "early":
		T = e.TxConv + 8
		if T+14 >= e.OneWaypFCT {
			e.OneWaypFCT, e.ConversionLimit, e.PEGFreeFloat = T+16, T+24, T+24
			e.V4, e.RCDE = T+34, T+34
			e.V20 = T + 50
			e.V20Dev, e.SprSig = forge.Far, forge.Far
			e.V202, e.OneWaySmall, e.V204, e.V204Burn, e.PIP10 = forge.Far, forge.Far, forge.Far, forge.Far, forge.Far
		}
	case "bank":
		T = e.V4 + 3
		if T+14 >= e.V20 {
			e.V20 = T + 20
			e.V20Dev, e.SprSig = forge.Far, forge.Far
			e.V202, e.OneWaySmall, e.V204, e.V204Burn, e.PIP10 = forge.Far, forge.Far, forge.Far, forge.Far, forge.Far
		}
	case "bankpre":
		// the per-height bank of [ConversionLimit, V4): conversions into PEG wait in holding and are paid in a
		// second pass per held height
		T = e.ConversionLimit + 3
		e.V4, e.RCDE = T+20, T+20
		e.V20 = T + 40
		e.V20Dev, e.SprSig = forge.Far, forge.Far
		e.V202, e.OneWaySmall, e.V204, e.V204Burn, e.PIP10 = forge.Far, forge.Far, forge.Far, forge.Far, forge.Far
	case "v20":
		T = e.V20 + 4
		for (T+14)/144 != T/144 { // keep clear of snapshot heights
			T++
		}
		if T+14 >= e.V20Dev {
			d := T + 16 - e.V20Dev
			e.V20Dev += d
			e.SprSig += d
			e.V202 += d
			e.OneWaySmall += d
			e.V204 += d
			e.V204Burn += d
			e.PIP10 += d
		}
	case "pip10":
		T = e.PIP10 + 16
	}
	tip := T + 16
	zeroQuoteAt := uint32(0)
	if p.Era == "pip10" {
		tip = T + 19
		zeroQuoteAt = T + 16 // a rated block whose pUSD quote is 0 (stakers and miners disagree on it beyond the band)
	}
	mo := gen.DefaultMixedOpts()
	mo.TxPerBlock = 2
	mo.UngradedProb, mo.NoOPRProb = 0, 0
	m := gen.NewMixed(e, p.Seed, mo, 12)
	setAvg(12)
	whale := forge.NewKey(fmt.Sprintf("c06-whale-%d", p.Seed))
	for h := e.Pegnet + 1; h <= tip; h++ {
		m.ForceGraded[h] = true
	}
	// funding: burn at TxConv, convert to pUSD
	h0 := e.TxConv
	m.Schedule(h0, func(v *gen.View, s *forge.BlockSpec) {
		s.FTxs = append(s.FTxs, forge.BurnTx(whale.FA(), 1_000_000*1e8, m.W.Time(h0).Unix()*1000+3, node.BurnRCD))
	})
	m.Schedule(h0+1, func(v *gen.View, s *forge.BlockSpec) {
		s.Tx = append(s.Tx, forge.SignedBatch([]forge.Tx{forge.Conversion(whale.FA(), fat2.PTickerFCT, 900_000*1e8, fat2.PTickerUSD)}, m.W.EntryTime(h0+1), whale))
	})

	mk := func(name string) (forge.Key, forge.Key) {
		return forge.NewKey(fmt.Sprintf("c06-%s-S-%d", name, p.Seed)), forge.NewKey(fmt.Sprintf("c06-%s-R-%d", name, p.Seed))
	}
	var cases []*c06Case
	add := func(c *c06Case) {
		c.S, c.R = mk(c.Name)
		cases = append(cases, c)
	}
	F := uint64(100 * 1e8)
	dst := fat2.PTickerEUR
	if p.Era == "bankpre" {
		dst = fat2.PTickerPEG
	}
	add(&c06Case{Name: "T-same-block-x2", Kind: "transfer", Fund: F, Amount: 30 * 1e8, At: []uint32{T}, Times: []int{2}, MustExecute: true, Metamorphic: true})
	add(&c06Case{Name: "T-same-block-x3", Kind: "transfer", Fund: F, Amount: 30 * 1e8, At: []uint32{T}, Times: []int{3}, MustExecute: true, Metamorphic: true})
	add(&c06Case{Name: "T-next-block", Kind: "transfer", Fund: F, Amount: 40 * 1e8, At: []uint32{T, T + 1}, Times: []int{1, 1}, MustExecute: true, Metamorphic: true})
	add(&c06Case{Name: "T-later-blocks", Kind: "transfer", Fund: F, Amount: 40 * 1e8, At: []uint32{T, T + 5, T + 9}, Times: []int{1, 2, 1}, MustExecute: true, Metamorphic: true})
	// a transfer rejected for insufficient funds and repeated after funding: the property's own observation point
	// (ledger with duplicates == ledger with first occurrences only) makes every repeat inert, so it must stay rejected
	add(&c06Case{Name: "T-rejected-then-funded", Kind: "transfer", Fund: 50 * 1e8, Amount: 80 * 1e8, At: []uint32{T, T + 3, T + 4, T + 4}, Times: []int{1, 1, 1, 1}, FundAt: T + 1, FundAmt: F, MustNotExec: true, Metamorphic: true})
	add(&c06Case{Name: "T-rejected-funded-same-block", Kind: "transfer", Fund: 50 * 1e8, Amount: 80 * 1e8, At: []uint32{T + 6, T + 6}, Times: []int{1, 1}, FundAt: T + 6, FundAmt: F, MustNotExec: true, Metamorphic: true, FundBetween: true})
	add(&c06Case{Name: "T-rejected-same-block-x3", Kind: "transfer", Fund: 50 * 1e8, Amount: 80 * 1e8, At: []uint32{T}, Times: []int{3}, MustNotExec: true, Metamorphic: true})
	add(&c06Case{Name: "C-same-block-x2", Kind: "conversion", Fund: F, Amount: 30 * 1e8, Conv: dst, At: []uint32{T}, Times: []int{2}, MustExecute: true, Metamorphic: true})
	add(&c06Case{Name: "C-next-block", Kind: "conversion", Fund: F, Amount: 30 * 1e8, Conv: dst, At: []uint32{T, T + 1}, Times: []int{1, 1}, MustExecute: true, Metamorphic: true})
	add(&c06Case{Name: "C-after-execution", Kind: "conversion", Fund: F, Amount: 30 * 1e8, Conv: dst, At: []uint32{T, T + 2, T + 7}, Times: []int{1, 1, 2}, MustExecute: true, Metamorphic: true})
	// pending across ungraded blocks T+10..T+12: first copy at T+9 stays in holding until T+13
	ung := []uint32{T + 10, T + 11, T + 12}
	add(&c06Case{Name: "C-pending-across-ungraded", Kind: "conversion", Fund: F, Amount: 30 * 1e8, Conv: dst, At: []uint32{T + 9, T + 10, T + 11, T + 13}, Times: []int{1, 1, 2, 1}, MustExecute: true, Metamorphic: true})
	add(&c06Case{Name: "C-underfunded-then-funded", Kind: "conversion", Fund: 50 * 1e8, Amount: 80 * 1e8, Conv: dst, At: []uint32{T, T + 3, T + 5}, Times: []int{1, 1, 1}, FundAt: T + 1, FundAmt: F, MustNotExec: true, Metamorphic: true})
	add(&c06Case{Name: "C-underfunded-funded-before-next-rated", Kind: "conversion", Fund: 50 * 1e8, Amount: 80 * 1e8, Conv: dst, At: []uint32{T + 9}, Times: []int{1}, FundAt: T + 10, FundAmt: F, MustExecute: true, Metamorphic: true})
	// closed destinations by era (rejected with a specific code, then repeated)
	if p.Era == "bankpre" {
		// entered in the last block before the conversion limit, executed in the first block under it
		add(&c06Case{Name: "C-executes-at-limit-activation", Kind: "conversion", Fund: F, Amount: 30 * 1e8, Conv: dst, At: []uint32{e.ConversionLimit - 1, e.ConversionLimit + 1}, Times: []int{1, 1}, MustExecute: true, Metamorphic: true})
	}
	if zeroQuoteAt != 0 {
		// held one block before the zero-quote block, refused there (its source has no rate), written again later:
		// it has been considered once and for all
		add(&c06Case{Name: "C-rejected-at-zero-quote-block", Kind: "conversion", Fund: F, Amount: 30 * 1e8, Conv: dst, At: []uint32{zeroQuoteAt - 1, zeroQuoteAt + 1, zeroQuoteAt + 2}, Times: []int{1, 1, 1}, MustNotExec: true, Metamorphic: true})
		m.Schedule(zeroQuoteAt, func(v *gen.View, s *forge.BlockSpec) {
			sp := map[string]uint64{}
			for k, x := range m.W.Prices {
				sp[k] = x
			}
			sp["USD"] = m.W.Prices["USD"] * 2
			var st []forge.Key
			for _, a := range gen.TopPEG(v.Balances, 100) {
				for _, k := range m.Actors {
					if k.FA() == a && !k.IsEth() && len(st) < 30 {
						st = append(st, k)
					}
				}
			}
			if len(st) >= 25 {
				s.SPR = m.W.StdSPRs(zeroQuoteAt, st, sp)
			}
		})
	}
	if T >= e.OneWaypFCT {
		add(&c06Case{Name: "C-rejected-pFCT", Kind: "conversion", Fund: F, Amount: 30 * 1e8, Conv: fat2.PTickerFCT, At: []uint32{T, T + 2, T + 2}, Times: []int{1, 1, 1}, MustNotExec: true, Metamorphic: true})
	}
	if T >= e.V20 {
		add(&c06Case{Name: "C-rejected-PEG", Kind: "conversion", Fund: F, Amount: 30 * 1e8, Conv: fat2.PTickerPEG, At: []uint32{T, T + 2}, Times: []int{1, 2}, MustNotExec: true, Metamorphic: true})
	}
	if T >= e.OneWaySmall {
		add(&c06Case{Name: "C-rejected-smallcap", Kind: "conversion", Fund: F, Amount: 30 * 1e8, Conv: fat2.PTickerDCR, At: []uint32{T, T + 3}, Times: []int{1, 1}, MustNotExec: true, Metamorphic: true})
	}
	if T+3 < e.PEGPricing {
		add(&c06Case{Name: "C-rejected-zero-rate", Kind: "conversion", Fund: F, Amount: 30 * 1e8, Conv: fat2.PTickerPEG, At: []uint32{T, T + 2}, Times: []int{1, 1}, MustNotExec: true, Metamorphic: true})
	}
	for _, u := range ung {
		delete(m.ForceGraded, u)
		m.ForceUngraded[u] = true
	}
	// fund the senders at T-4 (T-6 in the bankpre era, where one entry is written before T-4)
	fundAt := T - 4
	if p.Era == "bankpre" {
		fundAt = T - 6
	}
	m.Schedule(fundAt, func(v *gen.View, s *forge.BlockSpec) {
		var outs []forge.Out
		var tot uint64
		for _, c := range cases {
			outs = append(outs, forge.Out{Addr: c.S.FA(), Amount: c.Fund})
			tot += c.Fund
		}
		s.Tx = append(s.Tx, forge.SignedBatch([]forge.Tx{{From: whale.FA(), Asset: fat2.PTickerUSD, Amount: tot, To: outs}}, m.W.EntryTime(fundAt), whale))
	})
	repeatsAt := map[uint32]map[string]int{} // height → entry hash hex → copies beyond the first
	for _, c := range cases {
		c := c
		if c.Kind == "transfer" {
			c.entry = forge.SignedBatch([]forge.Tx{forge.Transfer(c.S.FA(), fat2.PTickerUSD, c.Amount, c.R.FA())}, m.W.EntryTime(c.At[0]), c.S)
		} else {
			c.entry = forge.SignedBatch([]forge.Tx{forge.Conversion(c.S.FA(), fat2.PTickerUSD, c.Amount, c.Conv)}, m.W.EntryTime(c.At[0]), c.S)
		}
		if c.FundBetween {
			h := c.At[0]
			m.Schedule(h, func(v *gen.View, s *forge.BlockSpec) {
				s.Tx = append(s.Tx, c.entry)
				s.Tx = append(s.Tx, forge.SignedBatch([]forge.Tx{forge.Transfer(whale.FA(), fat2.PTickerUSD, c.FundAmt, c.S.FA())}, m.W.EntryTime(h)+3, whale))
				s.Tx = append(s.Tx, c.entry)
			})
			continue
		}
		for i, h := range c.At {
			h, n := h, c.Times[i]
			m.Schedule(h, func(v *gen.View, s *forge.BlockSpec) {
				for k := 0; k < n; k++ {
					s.Tx = append(s.Tx, c.entry)
				}
			})
		}
		if c.FundAt != 0 {
			m.Schedule(c.FundAt, func(v *gen.View, s *forge.BlockSpec) {
				s.Tx = append(s.Tx, forge.SignedBatch([]forge.Tx{forge.Transfer(whale.FA(), fat2.PTickerUSD, c.FundAmt, c.S.FA())}, m.W.EntryTime(c.FundAt), whale))
			})
		}
	}
	_ = repeatsAt

	// blocks also fail once before they are applied (a failed directory-block fetch; the last statement before
	// COMMIT): an entry still takes effect at most once however many attempts its block needed
	n, err := harness.StartNode(harness.NodeConfig{DBPath: filepath.Join(j.Dir, "db"), Wrap: true}, m.W.Chain)
	if err != nil {
		return err
	}
	undo := installRetries(n, r, p.Seed, e)
	defer func() { undo() }()
	n.Run()
	// one clean restart in the middle of the placements (repeats across a restart)
	restartAt := T + 1
	err = gen.Drive(n, m, m.W, restartAt, harness.WaitOpts{}, nil)
	if err == nil {
		n.Stop()
		undo()
		n, err = harness.StartNode(harness.NodeConfig{DBPath: filepath.Join(j.Dir, "db"), Wrap: true}, m.W.Chain)
		if err == nil {
			undo = installRetries(n, r, p.Seed+1, e)
			n.Run()
			err = gen.Drive(n, m, m.W, tip, harness.WaitOpts{}, nil)
		}
	}
	if err != nil {
		var wedgedAt uint32
		lastErr := harness.LastDaemonError()
		if n != nil {
			wedgedAt, _ = n.Synced()
			n.Stop()
		}
		if errors.Is(err, harness.ErrWedged) {
			// the chain with repeats cannot get past a block: if that block holds a repeated entry and the same
			// chain with first occurrences only does get past it, the copy has had an effect
			w := wedgedAt + 1
			seenAny := map[factom.Bytes32]bool{}
			copyAtW := false
			firstOnly := m.W.Variant(func(h uint32, s *forge.BlockSpec) {
				var keep []forge.Entry
				for _, en := range s.Tx {
					if seenAny[en.Hash] {
						if h == w {
							copyAtW = true
						}
						continue
					}
					seenAny[en.Hash] = true
					keep = append(keep, en)
				}
				s.Tx = keep
			})
			if copyAtW && wedgedAt != 0 {
				if _, verr := Replay(firstOnly, ReplayOpts{DBPath: filepath.Join(j.Dir, "db-first-only-w"), ShortAvg: 12, Upto: w}); verr == nil {
					r.Count("metamorphic_pairs", 1)
					r.Violate("C06", "repeated-entry-stops-the-chain", fmt.Sprintf("block %d holds a copy of an entry written before; the chain cannot get past it (%s), the same chain with first occurrences only can", w, lastErr),
						map[string]interface{}{"seed": p.Seed, "era": p.Era, "T": T, "eras": e, "height": w})
					return nil
				}
			}
			r.Inconclusive = append(r.Inconclusive, "chain wedged (reported by C08): "+err.Error())
			return nil
		}
		return err
	}
	bal, neg, err := harness.ReadBalances(n.RO, "pn_addresses")
	if err != nil {
		return err
	}
	if len(neg) > 0 {
		r.Violate("C06", "negative-balance", fmt.Sprint(neg), nil)
	}
	status := func(h factom.Bytes32) (rows int, executed []int64) {
		q, err := n.RO.Query("SELECT executed FROM pn_history_txbatch WHERE entry_hash = ?", h[:])
		if err != nil {
			return
		}
		defer q.Close()
		for q.Next() {
			var x int64
			q.Scan(&x)
			rows++
			executed = append(executed, x)
		}
		return
	}
	for _, c := range cases {
		copies := 0
		for _, t := range c.Times {
			copies += t
		}
		r.Count("cases", 1)
		r.Count("copies_written", int64(copies))
		r.Seen("placements", c.Name+"@"+p.Era)
		funded := c.Fund + c.FundAmt
		src := bal.Get(c.S.FA(), fat2.PTickerUSD)
		rows, ex := status(c.entry.Hash)
		cd := map[string]interface{}{"seed": p.Seed, "era": p.Era, "case": c.Name, "entry": c.entry.Note, "written_at": c.At, "copies": c.Times,
			"sender_usd": src, "funded": funded, "history_rows": rows, "executed": ex, "T": T, "eras": e}
		var got uint64
		if c.Kind == "transfer" {
			got = bal.Get(c.R.FA(), fat2.PTickerUSD)
		} else {
			got = bal.Get(c.S.FA(), c.Conv)
		}
		times := -1
		switch {
		case src == funded && got == 0:
			times = 0
		case src == funded-c.Amount && (c.Kind == "conversion" && got > 0 || c.Kind == "transfer" && got == c.Amount):
			times = 1
		case c.Kind == "conversion" && c.Conv == fat2.PTickerPEG && p.Era == "bankpre" && got > 0 && src < funded && src > funded-c.Amount:
			// a request against the PEG bank may be filled in part: the unfilled part of the input comes back.
			// Exactly-once is then decided on the PEG side (credited amount == the one recorded execution, below)
			times = 1
		}
		cd["effects"] = times
		if times == 1 && c.Kind == "conversion" {
			// considered exactly once: what the destination holds is what the history records for the one execution
			var rec int64
			n.RO.QueryRow("SELECT COALESCE(SUM(to_amount),0) FROM pn_history_transaction WHERE entry_hash = ?", c.entry.Hash[:]).Scan(&rec)
			cd["recorded_to_amount"] = rec
			r.Count("converted_amounts_compared", 1)
			if uint64(rec) != got {
				times = -1
				cd["effects"] = "credited amount differs from the single recorded execution"
			}
		}
		if times < 0 {
			r.Violate("C06", fmt.Sprintf("multiple-execution case=%s", c.Name),
				fmt.Sprintf("entry written %d times took effect more than once or partially: sender holds %d of %d funded, recipient/destination holds %d (amount %d)", copies, src, funded, got, c.Amount), cd)
			continue
		}
		if times == 1 {
			r.Count("executed_once", 1)
		}
		if c.MustExecute && times != 1 {
			r.Violate("C06", fmt.Sprintf("not-executed case=%s", c.Name), "a valid, funded entry did not take effect although it was written to the chain (the repeats must not suppress the original)", cd)
		}
		if c.MustNotExec && times != 0 {
			r.Violate("C06", fmt.Sprintf("reconsidered case=%s", c.Name), "an entry that was rejected when it was considered took effect later through a repeated copy (held conversions are considered exactly once)", cd)
		}
		if len(r.Samples) < 5 {
			r.Sample(cd)
		}
	}
	refDump, err := harness.TakeDump(n.RO, harness.DumpOptions{DropBackfill: true, KeepRows: true, Exclude: harness.LayoutColumns})
	n.Stop()
	if err != nil {
		return err
	}
	// metamorphic: same chain with only the first occurrence of each metamorphic case
	seen := map[factom.Bytes32]bool{}
	meta := map[factom.Bytes32]bool{}
	for _, c := range cases {
		if c.Metamorphic {
			meta[c.entry.Hash] = true
		}
	}
	variant := m.W.Variant(func(h uint32, s *forge.BlockSpec) {
		var keep []forge.Entry
		for _, en := range s.Tx {
			if meta[en.Hash] {
				if seen[en.Hash] {
					continue
				}
				seen[en.Hash] = true
			}
			keep = append(keep, en)
		}
		s.Tx = keep
	})
	res, err := Replay(variant, ReplayOpts{DBPath: filepath.Join(j.Dir, "db-first-only"), ShortAvg: 12, KeepRows: true, Exclude: harness.LayoutColumns})
	if err != nil {
		r.Inconclusive = append(r.Inconclusive, "first-occurrence-only replay failed: "+err.Error())
		return nil
	}
	r.Count("metamorphic_pairs", 1)
	if res.Dump.Total != refDump.Total {
		diff := harness.DiffDumps(res.Dump, refDump)
		tables := ""
		for t, hs := range refDump.Hashes {
			if res.Dump.Hashes[t] != hs {
				tables += t + ","
			}
		}
		r.Violate("C06", "repeats-not-inert tables="+sortCSV(tables),
			"the chain with repeated entries and the chain with first occurrences only (A) end in different ledgers (B = with repeats)\n"+joinLines(diff, 10),
			map[string]interface{}{"seed": p.Seed, "era": p.Era, "T": T, "eras": e})
	}
	return nil
}

func checkC06(c *Ctx) *orch.Outcome {
	o := c.NewOutcome("exploration")
	o.Rule = "one evaluation = one test entry (transfer or conversion, single-purpose sender/recipient) written 2–5 times at a given placement relative to holding / execution / rejection / restart; its number of effects is read from final balances (0 or 1, never more or partial). " +
		"Plus one metamorphic comparison per chain against the chain with first occurrences only. Non-trivial/distinct = (placement, era) pairs; a pair counts only if the run completed and the first copy reached the expected state."
	o.Assumptions = []string{
		"every repeat of an entry hash must be inert, also after a rejection (the property's observation point is: ledger with duplicates == ledger with first occurrences only)",
		"compressed eras; window 12",
	}
	eras := []string{"early", "bankpre", "bank", "v20", "pip10"}
	n := 3
	if c.Thorough() {
		n = 10
	}
	var jobs []orch.Job
	for k := 0; k < n; k++ {
		for i, era := range eras {
			seed := c.Seed*1000 + int64(k*10+i)
			pj, _ := json.Marshal(c06Params{Seed: seed, Era: era})
			jobs = append(jobs, orch.Job{Kind: "c06.run", Name: fmt.Sprintf("c06-%s-%d", era, seed), Seed: seed, Params: pj, Timeout: 900})
		}
	}
	rs := c.R.Run(jobs)
	o.Merge(rs)
	for i, r := range rs {
		if r.Crashed {
			o.Inconclusive = append(o.Inconclusive, fmt.Sprintf("job %s crashed (daemon crash is reported by C08): %s", jobs[i].Name, clipS(r.Stderr, 500)))
		}
	}
	o.Evaluations = orch.SumCounter(rs, "cases") + orch.SumCounter(rs, "metamorphic_pairs")
	o.Nontrivial = int64(len(orch.UnionDistinct(rs, "placements")))
	o.Extra["copies_written"] = orch.SumCounter(rs, "copies_written")
	o.Extra["entries_executed_exactly_once"] = orch.SumCounter(rs, "executed_once")
	o.Extra["metamorphic_pairs"] = orch.SumCounter(rs, "metamorphic_pairs")
	o.Extra["converted_amounts_compared"] = orch.SumCounter(rs, "converted_amounts_compared")
	o.Extra["blocks_applied_twice_after_a_late_failure"] = orch.SumCounter(rs, "blocks_applied_twice_after_a_late_failure")
	o.Extra["blocks_retried_after_a_failed_dblock_fetch"] = orch.SumCounter(rs, "blocks_retried_after_a_failed_dblock_fetch")
	o.Extra["placements"] = orch.UnionDistinct(rs, "placements")
	o.MinNontrivial = 30
	return o
}
