package checks

import (
	"encoding/json"
	"fmt"
	"math/rand"
	"path/filepath"
	"sort"
	"strings"
	"time"

	"github.com/Factom-Asset-Tokens/factom"
	"github.com/pegnet/pegnetd/fat/fat2"
	"verif/lab/forge"
	"verif/lab/gen"
	"verif/lab/harness"
	"verif/lab/orch"
	"verif/lab/vdriver"
)

// The "rich chain" shared by the crash (C02) and fault (C10) enumerations: the mixed workload
// with ties, plus funded burn addresses, an empty block and an ungraded block, crossing every
// era. A profile pass re-applies each special block from a checkpoint with the statement and
// request logs on, so that the enumerations know every crash / fault point of that block.

// StmtInfo describes one database boundary event of a block attempt.
type StmtInfo struct {
	K    int    `json:"k"` // 1-based index within the attempt (all connections)
	Kind string `json:"kind"`
	InTx bool   `json:"in_tx"`
	Site string `json:"site"`
	SQL  string `json:"sql"`
}

// ReqInfo describes one upstream request of a block attempt.
type ReqInfo struct {
	Method string `json:"method"`
	Height uint32 `json:"height,omitempty"`
	Hash   string `json:"hash,omitempty"`
	Nth    int    `json:"nth"`
	What   string `json:"what"` // dblock / eblock:<chain> / entry:<chain> / fblock
}

// BlockProfile is what the profile pass learned about one special block.
type BlockProfile struct {
	Height uint32     `json:"height"`
	Label  string     `json:"label"`
	Stmts  []StmtInfo `json:"stmts"`
	Reqs   []ReqInfo  `json:"reqs"`
}

// RichMeta is saved as rich.json in the chain directory.
type RichMeta struct {
	Meta     *ChainMeta              `json:"meta"`
	Profiles map[uint32]*BlockProfile `json:"profiles"`
	Special  []uint32                `json:"special"`
}

type richParams struct {
	Dir  string `json:"dir"`
	Seed int64  `json:"seed"`
	WAL  bool   `json:"wal"`
}

func init() {
	orch.Register("rich.forge", richForge)
}

func shortSQL(s string) string {
	s = strings.Join(strings.Fields(s), " ")
	if len(s) > 70 {
		s = s[:70]
	}
	return s
}

// RichEras draws the era layout of the rich chain.
func RichEras(seed int64) forge.Eras {
	return RandomEras(rand.New(rand.NewSource(seed*31+7)), true)
}

func richForge(j *orch.Job, r *orch.Result) error {
	var p richParams
	json.Unmarshal(j.Params, &p)
	e := RichEras(p.Seed)
	tip := SecondSnapshot(e) + 2
	if tip < e.PIP10+16 {
		tip = e.PIP10 + 16
	}
	labels := map[uint32]string{}
	setLabel := func(h uint32, l string) {
		if h <= e.Pegnet || h > tip {
			return
		}
		if labels[h] != "" {
			labels[h] += "+" + l
		} else {
			labels[h] = l
		}
	}
	first := ((e.V20 + 143) / 144) * 144
	setLabel(e.Pegnet+2, "v1-graded")
	setLabel(e.TxConv, "fct-burn")
	setLabel(e.TxConv+2, "first-conversion-executes")
	setLabel(e.TxConv+3, "transfers")
	setLabel(e.ConversionLimit+3, "bank-payout-pre-v4")
	setLabel(e.V4+3, "bank-payout-v4")
	setLabel(e.V20, "v20-first-block")
	setLabel(first, "first-snapshot")
	setLabel(first+144, "snapshot-holder-payout")
	setLabel(e.V20Dev, "nullify-old-burn-address")
	setLabel(e.V202, "nullify-burn-address")
	setLabel(e.V204, "mint")
	setLabel(e.V204Burn, "burn-minted")
	setLabel(e.PIP10+14, "pip10-conversions")
	emptyH, ungradedH := e.V20+6, e.V20+8
	setLabel(emptyH, "empty-block")
	setLabel(ungradedH, "ungraded-block")
	setLabel(ungradedH+1, "after-ungraded")
	var devH uint32
	for h := e.V20Dev; h <= tip; h++ {
		if h%144 == 0 {
			devH = h
			break
		}
	}
	if devH != 0 {
		setLabel(devH, "developer-payout")
	}
	ckpts := map[uint32]bool{}
	var special []uint32
	for h := range labels {
		special = append(special, h)
		ckpts[h-1] = true
	}
	sort.Slice(special, func(a, b int) bool { return special[a] < special[b] })
	need := map[uint32]bool{}
	for _, h := range special {
		for d := uint32(0); d <= 4; d++ {
			need[h-1+d] = true
		}
	}

	burnOld, _ := factom.NewFAAddress("FA1y5ZGuHSLmf2TqNf6hVMkPiNGyQpQDTFJvDLRkKQaoPo4bmbgu")
	burnNew, _ := factom.NewFAAddress("FA2BURNBABYBURNoooooooooooooooooooooooooooooooDGvNXy")
	mint, _ := factom.NewFAAddress("FA3j16WPCiqsAFHVZcEoL85Khh5RhPCNe6PWHBKgUxrx8MAnbNoy")
	var ts *gen.TieSetup
	c, meta, _, err := ForgeChain(ForgeOpts{Profile: "rich", Seed: p.Seed, Eras: e, Upto: tip, ShortAvg: 12, Ties: false, Dir: p.Dir, PerHeight: true, PerHeightOnly: need, Checkpoints: ckpts, KeepDB: false,
		Customize: func(m *gen.Mixed) {
			ts = gen.AddTies(m, p.Seed)
			for h := range labels {
				m.ForceGraded[h] = true
			}
			delete(m.ForceGraded, emptyH)
			delete(m.ForceGraded, ungradedH)
			m.ForceEmpty[emptyH] = true
			m.ForceUngraded[ungradedH] = true
			// third parties send funds to the special addresses before their one-time adjustments
			w := ts.Whale
			pay := func(h uint32, to factom.FAAddress, asset fat2.PTicker, amt uint64) {
				m.Schedule(h, func(v *gen.View, s *forge.BlockSpec) {
					s.Tx = append(s.Tx, forge.SignedBatch([]forge.Tx{forge.Transfer(w.FA(), asset, amt, to)}, m.W.EntryTime(h)+11, w))
				})
			}
			pay(e.TxConv+8, burnOld, fat2.PTickerUSD, 77*1e8)
			pay(e.TxConv+9, burnNew, fat2.PTickerUSD, 55*1e8)
			pay(e.TxConv+9, mint, fat2.PTickerUSD, 33*1e8)
			pay(e.V20+2, burnOld, fat2.PTickerEUR, 5*1e8)
			pay(e.V20Dev+2, burnNew, fat2.PTickerUSD, 11*1e8)
			// a conversion submitted right before the ungraded block waits in holding across it
			m.Schedule(ungradedH-1, func(v *gen.View, s *forge.BlockSpec) {
				s.Tx = append(s.Tx, forge.SignedBatch([]forge.Tx{forge.Conversion(w.FA(), fat2.PTickerUSD, 123*1e8, fat2.PTickerXBT)}, m.W.EntryTime(ungradedH-1)+12, w))
			})
			m.Schedule(e.PIP10+13, func(v *gen.View, s *forge.BlockSpec) {
				s.Tx = append(s.Tx, forge.SignedBatch([]forge.Tx{forge.Conversion(w.FA(), fat2.PTickerUSD, 321*1e8, fat2.PTickerXAU)}, m.W.EntryTime(e.PIP10+13)+12, w))
			})
		}})
	if err != nil {
		return err
	}
	rm := &RichMeta{Meta: meta, Profiles: map[uint32]*BlockProfile{}, Special: special}
	// profile pass: apply each special block from its checkpoint with logs on
	for _, b := range special {
		prof, err := profileBlock(c, p.Dir, b, labels[b], p.WAL)
		if err != nil {
			return fmt.Errorf("profile of block %d: %w", b, err)
		}
		rm.Profiles[b] = prof
		r.Count("profiled_blocks", 1)
		r.Count("profiled_statements", int64(len(prof.Stmts)))
		r.Count("profiled_requests", int64(len(prof.Reqs)))
	}
	if err := saveJSON(filepath.Join(p.Dir, "rich.json"), rm); err != nil {
		return err
	}
	r.Info["tip"] = tip
	r.Info["special"] = special
	r.Info["eras"] = e
	return nil
}

func chainName(c *forge.Chain, b *forge.Block, hash factom.Bytes32) string {
	for _, x := range b.OPR {
		if x.Hash == hash {
			return "entry:opr"
		}
	}
	for _, x := range b.SPR {
		if x.Hash == hash {
			return "entry:spr"
		}
	}
	for _, x := range b.Tx {
		if x.Hash == hash {
			return "entry:tx"
		}
	}
	return "eblock"
}

// profileBlock applies block b from checkpoint b-1 with statement and request logs on.
func profileBlock(c *forge.Chain, dir string, b uint32, label string, wal bool) (*BlockProfile, error) {
	setAvg(12)
	dbp := filepath.Join(dir, fmt.Sprintf("profile-%d", b))
	if err := copyFile(filepath.Join(dir, fmt.Sprintf("ckpt-%d.db", b-1)), dbp+".v4"); err != nil {
		return nil, err
	}
	defer os_remove(dbp + ".v4")
	n, err := harness.StartNode(harness.NodeConfig{DBPath: dbp, Wrap: true, WAL: wal}, c)
	if err != nil {
		return nil, err
	}
	defer n.Stop()
	defer vdriver.Set(nil)
	tr := n.StartTrace(true, nil)
	n.Fake.LogRequests(true)
	n.Fake.SetCap(b - 1) // idle until the logs are armed
	n.Run()
	time.Sleep(5 * time.Millisecond)
	tr.Take()
	n.Fake.ClearRequests()
	if err := n.WaitSynced(b, harness.WaitOpts{}); err != nil {
		return nil, err
	}
	prof := &BlockProfile{Height: b, Label: label}
	evs := tr.Take()
	// keep the events of the attempt: from the BEGIN to the COMMIT
	k := 0
	started := false
	for _, ev := range evs {
		if ev.Kind == vdriver.KBegin {
			started = true
		}
		if !started {
			continue
		}
		k++
		prof.Stmts = append(prof.Stmts, StmtInfo{K: k, Kind: ev.Kind.String(), InTx: ev.InTx, Site: ev.Site, SQL: shortSQL(ev.SQL)})
		if ev.Kind == vdriver.KCommit {
			break
		}
	}
	blk := c.Get(b)
	for _, rq := range n.Fake.Requests() {
		if rq.Method == "heights" || rq.Cur != b {
			continue
		}
		ri := ReqInfo{Method: rq.Method, Height: rq.Height, Nth: rq.Nth}
		switch rq.Method {
		case "dblock-by-height":
			ri.What = "dblock"
		case "fblock-by-height":
			ri.What = "fblock"
		case "raw-data":
			ri.Hash = fmt.Sprintf("%x", rq.Hash[:])
			ri.What = chainName(c, blk, rq.Hash)
		}
		prof.Reqs = append(prof.Reqs, ri)
	}
	return prof, nil
}

// loadRich reads rich.json.
func loadRich(dir string) (*RichMeta, error) {
	var rm RichMeta
	if err := loadJSON(filepath.Join(dir, "rich.json"), &rm); err != nil {
		return nil, err
	}
	return &rm, nil
}

// siteOf returns a short stratification key for a statement.
func (s StmtInfo) Stratum() string {
	site := s.Site
	if i := strings.Index(site, "<-"); i > 0 {
		// innermost<-caller: keep both
		parts := strings.Split(site, "<-")
		if len(parts) > 3 {
			parts = parts[:3]
		}
		site = strings.Join(parts, "<-")
	}
	tx := "pool"
	if s.InTx {
		tx = "tx"
	}
	return s.Kind + "/" + tx + "/" + site
}
