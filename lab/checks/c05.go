package checks

import (
	"errors"
	"encoding/hex"
	"encoding/json"
	"fmt"
	"math/rand"
	"path/filepath"
	"strings"

	"github.com/Factom-Asset-Tokens/factom"
	"github.com/pegnet/pegnetd/config"
	"github.com/pegnet/pegnetd/fat/fat2"
	"github.com/pegnet/pegnetd/node"
	"verif/lab/forge"
	"verif/lab/gen"
	"verif/lab/harness"
	"verif/lab/orch"
)

// C05 Spend authorization — metamorphic mutation of signed entries. A reference chain contains
// validly signed base entries (transfer and conversion, RCD-1 and RCD-e, salt at the edges of the
// ±12 h window) from single-purpose funded senders. A variant of the same chain additionally
// carries every single-bit flip of each base entry's content and external ids and a set of
// structural forgeries. The two ledgers must be identical, and the base entries must have
// executed exactly once in both.

type c05Params struct {
	Seed int64 `json:"seed"`
	// FlipStride > 1 samples every n-th bit flip (quick tier); 1 = all single-bit flips.
	FlipStride int  `json:"flip_stride"`
	Tagged     bool `json:"tagged"` // include the recorded RCD-e recovery byte forgeries
}

func init() {
	registry["C05"] = checkC05
	orch.Register("c05.run", c05Run)
}

type c05Base struct {
	Name   string
	At     uint32
	S      forge.Key
	R      forge.Key
	Tx     forge.Tx
	Salt   int64
	Entry  forge.Entry
	Expect string // "execute" | "inert"
}

type c05Mutant struct {
	Label string
	At    uint32
	Front bool // placed before the block's other entries
	Entry forge.Entry
	// Foreign: the entry is not on the transaction chain at all: it sits in the entry block of another chain
	// (whose id sorts right after the transaction chain's) of a directory block in which the transaction chain
	// is silent, and is signed for that other chain
	Foreign bool
}

func rebuild(chain factom.Bytes32, ext [][]byte, content []byte) forge.Entry {
	return forge.NewEntry(chain, ext, content)
}

func c05Run(j *orch.Job, r *orch.Result) error {
	var p c05Params
	json.Unmarshal(j.Params, &p)
	if p.FlipStride < 1 {
		p.FlipStride = 1
	}
	rng := rand.New(rand.NewSource(p.Seed))
	e := RandomEras(rng, true)
	// keep the key-type activation clear of the other activations for this scenario
	T1 := e.TxConv + 8
	if e.RCDE < T1+10 {
		d := T1 + 10 - e.RCDE
		e.V4 += d
		e.RCDE += d
		e.V20 += d
		e.V20Dev += d
		e.SprSig += d
		e.V202 += d
		e.OneWaySmall += d
		e.V204 += d
		e.V204Burn += d
		e.PIP10 += d
	}
	if e.OneWaypFCT <= T1+3 {
		e.OneWaypFCT = T1 + 4
	}
	if e.ConversionLimit < e.OneWaypFCT {
		e.ConversionLimit, e.PEGFreeFloat = e.OneWaypFCT, e.OneWaypFCT
	}
	T2 := e.RCDE + 1 // first height at which RCD-e is accepted
	tip := T2 + 6
	mo := gen.DefaultMixedOpts()
	mo.TxPerBlock = 2
	mo.UngradedProb, mo.NoOPRProb = 0, 0
	m := gen.NewMixed(e, p.Seed, mo, 12)
	setAvg(12)
	for h := e.Pegnet + 1; h <= tip; h++ {
		m.ForceGraded[h] = true
	}
	whale := forge.NewKey(fmt.Sprintf("c05-whale-%d", p.Seed))
	h0 := e.TxConv
	m.Schedule(h0, func(v *gen.View, s *forge.BlockSpec) {
		s.FTxs = append(s.FTxs, forge.BurnTx(whale.FA(), 1_000_000*1e8, m.W.Time(h0).Unix()*1000+3, node.BurnRCD))
	})
	m.Schedule(h0+1, func(v *gen.View, s *forge.BlockSpec) {
		s.Tx = append(s.Tx, forge.SignedBatch([]forge.Tx{forge.Conversion(whale.FA(), fat2.PTickerFCT, 900_000*1e8, fat2.PTickerUSD)}, m.W.EntryTime(h0+1), whale))
	})

	F := uint64(1000 * 1e8)
	var bases []*c05Base
	mkBase := func(name string, at uint32, eth bool, conv bool, saltOff int64, expect string) *c05Base {
		b := &c05Base{Name: name, At: at, Expect: expect}
		if eth {
			b.S = forge.NewEthKey(fmt.Sprintf("c05-%s-S-%d", name, p.Seed))
		} else {
			b.S = forge.NewKey(fmt.Sprintf("c05-%s-S-%d", name, p.Seed))
		}
		b.R = forge.NewKey(fmt.Sprintf("c05-%s-R-%d", name, p.Seed))
		if conv {
			b.Tx = forge.Conversion(b.S.FA(), fat2.PTickerUSD, 70*1e8, fat2.PTickerEUR)
		} else {
			b.Tx = forge.Transfer(b.S.FA(), fat2.PTickerUSD, 70*1e8, b.R.FA())
		}
		b.Salt = m.W.EntryTime(at) + saltOff
		b.Entry = forge.SignedBatch([]forge.Tx{b.Tx}, b.Salt, b.S)
		bases = append(bases, b)
		return b
	}
	const h12 = 12 * 3600
	mkBase("transfer-rcd1", T1, false, false, 0, "execute")
	mkBase("conversion-rcd1", T1, false, true, 0, "execute")
	mkBase("transfer-salt-minus12h", T1, false, false, -h12, "execute")
	mkBase("transfer-salt-plus12h", T1, false, false, +h12, "execute")
	mkBase("transfer-rcde", T2, true, false, 0, "execute")
	mkBase("conversion-rcde", T2, true, true, 0, "execute")
	mkBase("transfer-rcd1-late", T2, false, false, 0, "execute")
	// entries that must be inert although correctly signed by the owner
	mkBase("transfer-salt-minus12h-1s", T1, false, false, -h12-1, "inert")
	mkBase("transfer-salt-plus12h+1s", T1, false, false, +h12+1, "inert")
	mkBase("transfer-rcde-before-activation", e.RCDE-1, true, false, 0, "inert")
	mkBase("conversion-rcde-before-activation", e.RCDE-2, true, true, 0, "inert")
	// the boundary itself: the pinned tree accepts RCD-e strictly above the activation height, and a
	// consensus boundary cannot move by one block without forking the ledger from replayed history
	mkBase("transfer-rcde-at-activation", e.RCDE, true, false, 0, "inert")
	mkBase("conversion-rcde-at-activation", e.RCDE, true, true, 0, "inert")

	// fund every sender well before its entry
	m.Schedule(T1-4, func(v *gen.View, s *forge.BlockSpec) {
		var outs []forge.Out
		var tot uint64
		for _, b := range bases {
			outs = append(outs, forge.Out{Addr: b.S.FA(), Amount: F})
			tot += F
		}
		s.Tx = append(s.Tx, forge.SignedBatch([]forge.Tx{{From: whale.FA(), Asset: fat2.PTickerUSD, Amount: tot, To: outs}}, m.W.EntryTime(T1-4), whale))
	})
	for _, b := range bases {
		b := b
		m.Schedule(b.At, func(v *gen.View, s *forge.BlockSpec) { s.Tx = append(s.Tx, b.Entry) })
	}

	// two directory blocks in which the transaction chain is silent (after everything else scheduled there)
	quiet := []uint32{T1 + 4, T2 + 4}
	for _, q := range quiet {
		m.Schedule(q, func(v *gen.View, s *forge.BlockSpec) { s.Tx = nil })
	}

	// ---- reference run
	n, err := harness.StartNode(harness.NodeConfig{DBPath: filepath.Join(j.Dir, "ref")}, m.W.Chain)
	if err != nil {
		return err
	}
	n.Run()
	if err := gen.Drive(n, m, m.W, tip, harness.WaitOpts{}, nil); err != nil {
		n.Stop()
		return err
	}
	refBal, _, err := harness.ReadBalances(n.RO, "pn_addresses")
	if err != nil {
		n.Stop()
		return err
	}
	ref, err := harness.TakeDump(n.RO, harness.DumpOptions{DropBackfill: true, KeepRows: true, Exclude: harness.LayoutColumns})
	n.Stop()
	if err != nil {
		return err
	}
	effect := func(bal harness.Balances, b *c05Base) int {
		src := bal.Get(b.S.FA(), fat2.PTickerUSD)
		switch {
		case src == F:
			return 0
		case src == F-b.Tx.Amount:
			return 1
		}
		return -1
	}
	for _, b := range bases {
		r.Count("base_entries", 1)
		got := effect(refBal, b)
		want := 1
		if b.Expect == "inert" {
			want = 0
		}
		cd := map[string]interface{}{"seed": p.Seed, "base": b.Name, "height": b.At, "entry": b.Entry.Note, "salt_offset_s": b.Salt - m.W.EntryTime(b.At), "rcde_activation": e.RCDE, "effects": got}
		if got != want {
			if want == 1 {
				r.Violate("C05", "valid-entry-not-executed base="+b.Name, "a correctly signed, funded entry with an accepted key type and a salt inside the window had no effect (positive control)", cd)
			} else {
				r.Violate("C05", "inert-entry-executed base="+b.Name, "an entry outside the salt window / with a key type not yet accepted debited its sender", cd)
			}
		}
	}

	// ---- mutants
	var muts []c05Mutant
	addMut := func(label string, at uint32, en forge.Entry) {
		muts = append(muts, c05Mutant{Label: label, At: at, Front: len(muts)%2 == 0, Entry: en})
	}
	attacker := forge.NewKey(fmt.Sprintf("c05-attacker-%d", p.Seed))
	attackerEth := forge.NewEthKey(fmt.Sprintf("c05-attacker-eth-%d", p.Seed))
	flipCounter := 0
	for _, b := range bases {
		if b.Expect != "execute" {
			continue
		}
		en := b.Entry.Parse()
		ext := b.Entry.ExtIDs()
		content := []byte(en.Content)
		parts := [][]byte{content, ext[0], ext[1], ext[2]}
		names := []string{"content", "salt", "rcd", "sig"}
		for pi, part := range parts {
			for bit := 0; bit < len(part)*8; bit++ {
				flipCounter++
				if flipCounter%p.FlipStride != 0 {
					continue
				}
				c2 := append([]byte{}, content...)
				e2 := [][]byte{append([]byte{}, ext[0]...), append([]byte{}, ext[1]...), append([]byte{}, ext[2]...)}
				tgt := c2
				if pi > 0 {
					tgt = e2[pi-1]
				}
				tgt[bit/8] ^= 1 << uint(bit%8)
				label := "bitflip-" + names[pi]
				if b.S.IsEth() && pi == 3 && bit/8 == 64 {
					if !p.Tagged {
						continue
					}
					label = "rcde-recovery-byte"
				}
				addMut(label+" base="+b.Name, b.At+uint32(bit%2), rebuild(config.TransactionChain, e2, c2))
			}
		}
		if b.S.IsEth() && p.Tagged {
			// every other value of the recovery byte
			for v := 0; v < 256; v += 17 {
				e2 := [][]byte{ext[0], ext[1], append([]byte{}, ext[2]...)}
				if e2[2][64] == byte(v) {
					continue
				}
				e2[2][64] = byte(v)
				addMut("rcde-recovery-byte base="+b.Name, b.At+1, rebuild(config.TransactionChain, e2, content))
			}
		}
		// bytes inserted into / removed from the content under the original signature: JSON whitespace at
		// every position (a reader that normalises the content before checking the signature would accept
		// these as fresh entries), other bytes, and whitespace around the document
		ws := []byte{' ', '\n', '\t', '\r'}
		for pos := 0; pos <= len(content); pos++ {
			c2 := append(append(append([]byte{}, content[:pos]...), ws[pos%4]), content[pos:]...)
			addMut("content-whitespace-inserted base="+b.Name, b.At+uint32(pos%2), rebuild(config.TransactionChain, ext, c2))
			if pos%7 == 3 && pos < len(content) {
				c3 := append(append([]byte{}, content[:pos]...), content[pos+1:]...)
				addMut("content-byte-removed base="+b.Name, b.At+1, rebuild(config.TransactionChain, ext, c3))
				c4 := append(append(append([]byte{}, content[:pos]...), content[pos]), content[pos:]...)
				addMut("content-byte-doubled base="+b.Name, b.At+1, rebuild(config.TransactionChain, ext, c4))
			}
		}
		addMut("content-whitespace-around base="+b.Name, b.At+1, rebuild(config.TransactionChain, ext, append(append([]byte("  \n"), content...), []byte("\n\n ")...)))
		// structural forgeries
		addMut("sig-rcd-swapped base="+b.Name, b.At, rebuild(config.TransactionChain, [][]byte{ext[0], ext[2], ext[1]}, content))
		addMut("missing-sig base="+b.Name, b.At, rebuild(config.TransactionChain, [][]byte{ext[0], ext[1]}, content))
		addMut("missing-rcd-sig base="+b.Name, b.At, rebuild(config.TransactionChain, [][]byte{ext[0]}, content))
		addMut("no-extids base="+b.Name, b.At, rebuild(config.TransactionChain, nil, content))
		addMut("duplicated-pair base="+b.Name, b.At+1, rebuild(config.TransactionChain, [][]byte{ext[0], ext[1], ext[2], ext[1], ext[2]}, content))
		addMut("extra-extid base="+b.Name, b.At+1, rebuild(config.TransactionChain, [][]byte{ext[0], ext[1], ext[2], {1, 2, 3}}, content))
		addMut("empty-sig base="+b.Name, b.At, rebuild(config.TransactionChain, [][]byte{ext[0], ext[1], {}}, content))
		addMut("zero-sig base="+b.Name, b.At, rebuild(config.TransactionChain, [][]byte{ext[0], ext[1], make([]byte, len(ext[2]))}, content))
		// signed for another chain id but posted on the transaction chain
		other := forge.SignContent(config.OPRChain, content, b.Salt, b.S)
		addMut("signed-for-other-chain base="+b.Name, b.At+1, rebuild(config.TransactionChain, other.ExtIDs(), content))
		// a different amount under the original signature
		bigger := b.Tx
		bigger.Amount += 1
		if len(bigger.To) > 0 {
			bigger.To = []forge.Out{{Addr: bigger.To[0].Addr, Amount: bigger.Amount}}
		}
		addMut("content-replaced-under-old-signature base="+b.Name, b.At+1, rebuild(config.TransactionChain, ext, forge.BatchContent([]forge.Tx{bigger})))
		// redirected to the attacker under the original signature
		if len(b.Tx.To) > 0 {
			redir := b.Tx
			redir.To = []forge.Out{{Addr: attacker.FA(), Amount: redir.Amount}}
			addMut("recipient-replaced-under-old-signature base="+b.Name, b.At+1, rebuild(config.TransactionChain, ext, forge.BatchContent([]forge.Tx{redir})))
		}
		// the attacker signs a spend of the victim's address with its own key (both key types)
		for _, ak := range []forge.Key{attacker, attackerEth} {
			steal := forge.Transfer(b.S.FA(), fat2.PTickerUSD, 50*1e8, attacker.FA())
			addMut("foreign-key-signature base="+b.Name, b.At+1, forge.SignContent(config.TransactionChain, forge.BatchContent([]forge.Tx{steal}), b.Salt, ak))
		}
		// original signature with a fresh salt (signature covers the salt)
		addMut("salt-replaced base="+b.Name, b.At+2, rebuild(config.TransactionChain, [][]byte{[]byte(fmt.Sprint(b.Salt + 7)), ext[1], ext[2]}, content))
		// two inputs, one signature: a batch spending from victim and attacker signed by the attacker only
		two := []forge.Tx{forge.Transfer(attacker.FA(), fat2.PTickerUSD, 0, attacker.FA()), forge.Transfer(b.S.FA(), fat2.PTickerUSD, 50*1e8, attacker.FA())}
		addMut("two-inputs-one-signature base="+b.Name, b.At+1, forge.SignContent(config.TransactionChain, forge.BatchContent(two), b.Salt, attacker))
		addMut("two-inputs-two-foreign-signatures base="+b.Name, b.At+1, forge.SignContent(config.TransactionChain, forge.BatchContent(two), b.Salt, attacker, attackerEth))
	}
	// a batch of a funded sender, correctly signed - for another chain, where it is written: chains are FAT-2 tokens
	// of their own, and the chain id in the signed message is what keeps a batch on its chain
	foreignChain := config.TransactionChain
	for i := 31; i >= 0; i-- {
		foreignChain[i]++
		if foreignChain[i] != 0 {
			break
		}
	}
	for qi, q := range quiet {
		b := bases[qi] // transfer-rcd1 / conversion-rcd1: funded, their own entries executed long before
		steal := forge.Transfer(b.S.FA(), fat2.PTickerUSD, 50*1e8, attacker.FA())
		muts = append(muts, c05Mutant{Label: "foreign-chain-batch base=" + b.Name, At: q, Foreign: true,
			Entry: forge.SignContent(foreignChain, forge.BatchContent([]forge.Tx{steal}), m.W.EntryTime(q), b.S)})
	}
	byHash := map[string]string{}
	baseHash := map[factom.Bytes32]bool{}
	for _, b := range bases {
		baseHash[b.Entry.Hash] = true
	}
	front := map[uint32][]forge.Entry{}
	back := map[uint32][]forge.Entry{}
	foreign := map[uint32][]forge.Entry{}
	nm := 0
	for _, mu := range muts {
		if baseHash[mu.Entry.Hash] {
			continue // identical bytes are a repeat (C06), not a forgery
		}
		if _, dup := byHash[hex.EncodeToString(mu.Entry.Hash[:])]; dup {
			continue
		}
		byHash[hex.EncodeToString(mu.Entry.Hash[:])] = mu.Label
		if mu.Foreign {
			foreign[mu.At] = append(foreign[mu.At], mu.Entry)
			nm++
			r.Seen("mutant_classes", strings.SplitN(mu.Label, " base=", 2)[0])
			r.Seen("class_base", mu.Label)
			continue
		}
		if mu.Front {
			front[mu.At] = append(front[mu.At], mu.Entry)
		} else {
			back[mu.At] = append(back[mu.At], mu.Entry)
		}
		nm++
		r.Seen("mutant_classes", strings.SplitN(mu.Label, " base=", 2)[0])
		r.Seen("class_base", mu.Label)
	}
	r.Count("mutants", int64(nm))
	variant := m.W.Variant(func(h uint32, s *forge.BlockSpec) {
		if len(front[h]) > 0 || len(back[h]) > 0 {
			s.Tx = append(append(append([]forge.Entry{}, front[h]...), s.Tx...), back[h]...)
		}
		if len(foreign[h]) > 0 && len(s.Tx) == 0 {
			s.Other = map[factom.Bytes32][]forge.Entry{factom.Bytes32(foreignChain): foreign[h]}
		}
	})
	vdb := filepath.Join(j.Dir, "variant")
	res, err := Replay(variant, ReplayOpts{DBPath: vdb, ShortAvg: 12, KeepRows: true, Exclude: harness.LayoutColumns})
	if err != nil && errors.Is(err, harness.ErrWedged) {
		// the chain without the forgeries was synced to the end by the run that forged it; with them a block cannot
		// be applied: entries nobody authorised have had an effect
		r.Violate("C05", "forged-entries-stop-the-chain", fmt.Sprintf("the chain with forged entries added cannot be synced (%v; last daemon error: %s); the same chain without them can", err, harness.LastDaemonError()),
			map[string]interface{}{"seed": p.Seed, "mutants_in_chain": nm})
		return nil
	}
	if err != nil {
		r.Inconclusive = append(r.Inconclusive, "variant replay failed: "+err.Error())
		return nil
	}
	if len(muts) > 0 {
		r.Sample(map[string]interface{}{"seed": p.Seed, "example_mutant": muts[len(muts)/2].Label, "mutants_in_chain": nm, "bases": len(bases), "T1": T1, "T2": T2})
	}
	if res.Dump.Total != ref.Total {
		// attribute: history rows present only in the variant
		culprit := map[string]int{}
		inRef := map[string]bool{}
		for _, row := range ref.Tables["pn_history_txbatch"] {
			inRef[row] = true
		}
		for _, row := range res.Dump.Tables["pn_history_txbatch"] {
			if inRef[row] {
				continue
			}
			if i := strings.Index(row, "entry_hash=b"); i >= 0 {
				hh := row[i+12 : i+12+64]
				if lab, ok := byHash[hh]; ok {
					culprit[lab]++
				} else {
					culprit["(unattributed row) "+clipS(row, 120)]++
				}
			}
		}
		diff := harness.DiffDumps(ref, res.Dump)
		if len(culprit) == 0 {
			r.Violate("C05", "forged-entries-changed-ledger unattributed", "ledger with forged entries (B) differs from ledger without them (A)\n"+joinLines(diff, 8), map[string]interface{}{"seed": p.Seed})
		}
		for lab, k := range culprit {
			cls := strings.SplitN(lab, " base=", 2)[0]
			r.Violate("C05", "forged-entry-accepted class="+cls,
				fmt.Sprintf("%d forged entr(y/ies) of class %q were accepted and processed by the daemon: the ledger with them (B) differs from the ledger without them (A)\n%s", k, lab, joinLines(diff, 6)),
				map[string]interface{}{"seed": p.Seed, "mutant": lab, "count": k, "eras": e})
		}
	}
	r.Count("variant_compared", 1)
	return nil
}

func checkC05(c *Ctx) *orch.Outcome {
	o := c.NewOutcome("exploration")
	o.Rule = "one evaluation = one forged entry (single-bit flip of content / salt / RCD / signature of a valid base entry, or a structural forgery) placed on the transaction chain next to the original, before and after it; the ledger of the chain with all forgeries must equal the ledger of the chain without them, and each base entry must debit its single-purpose sender exactly once (positive control). " +
		"Distinct non-trivial = (forgery class, base entry) pairs applied."
	o.Assumptions = []string{
		"the RCD-e boundary is judged as the pinned tree defines it: inert at activation-2, -1 and at the activation height itself, executed at activation+1",
		"RCD-e recovery-byte forgeries run only in the tagged scenario (recorded finding)",
	}
	n, stride := 2, 2
	if c.Thorough() {
		n, stride = 8, 1
	}
	var jobs []orch.Job
	for k := 0; k < n; k++ {
		seed := c.Seed*1000 + int64(k)
		pj, _ := json.Marshal(c05Params{Seed: seed, FlipStride: stride})
		jobs = append(jobs, orch.Job{Kind: "c05.run", Name: fmt.Sprintf("c05-%d", seed), Seed: seed, Params: pj, Timeout: 1500})
	}
	pj, _ := json.Marshal(c05Params{Seed: c.Seed*1000 + 900, FlipStride: 50, Tagged: true})
	jobs = append(jobs, orch.Job{Kind: "c05.run", Name: "c05-tagged", Seed: c.Seed*1000 + 900, Params: pj, Timeout: 900})
	rs := c.R.Run(jobs)
	o.Merge(rs)
	for i, r := range rs {
		if r.Crashed {
			o.Inconclusive = append(o.Inconclusive, fmt.Sprintf("job %s crashed: %s", jobs[i].Name, clipS(r.Stderr, 500)))
		}
	}
	o.Evaluations = orch.SumCounter(rs, "mutants") + orch.SumCounter(rs, "base_entries")
	o.Nontrivial = int64(len(orch.UnionDistinct(rs, "class_base")))
	o.Extra["mutant_classes"] = orch.UnionDistinct(rs, "mutant_classes")
	o.Extra["base_entries"] = orch.SumCounter(rs, "base_entries")
	o.Extra["chains_compared"] = orch.SumCounter(rs, "variant_compared")
	o.Exhaustive = false
	if c.Thorough() {
		o.Extra["exhaustive_within"] = "every single-bit flip of content, time salt, RCD and signature of each executing base entry"
	}
	o.MinNontrivial = 40
	return o
}
