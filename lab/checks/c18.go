package checks

import (
	"errors"
	"bytes"
	"encoding/hex"
	"encoding/json"
	"fmt"
	"io"
	"math/rand"
	"net"
	"net/http"
	"path/filepath"
	"regexp"
	"sort"
	"strings"
	"sync"
	"sync/atomic"
	"time"

	"github.com/anishathalye/porcupine"
	"github.com/pegnet/pegnetd/config"
	"github.com/pegnet/pegnetd/srv"
	"github.com/spf13/viper"
	"verif/lab/forge"
	"verif/lab/gen"
	"verif/lab/harness"
	"verif/lab/orch"
	"verif/lab/vdriver"
)

// C18 API isolation. Three oracles over executions of the real JSON-RPC server running
// concurrently with the real sync loop, under the race detector:
//  (1) race detector reports / runtime fatals / daemon exits;
//  (2) differential: ledger with API load == ledger without;
//  (3) committed-state linearizability: every response (per independently-read part) must equal
//      the reference answer of some committed height, consistently with real time; checked with
//      porcupine against a one-register model (state = committed height).

type c18Params struct {
	Dir      string `json:"dir"`
	Seed     int64 `json:"seed"`
	Blocks   int   `json:"blocks"`
	Clients  int   `json:"clients"`
	Segment  int   `json:"segment"`
	DelayPct int   `json:"delay_pct"`
	// FailAPIReadsPct: per mille of the database reads issued by API handlers that fail by injection
	FailAPIReadsPct int `json:"fail_api_reads_pm"`
}

func init() {
	registry["C18"] = checkC18
	orch.Register("c18.prep", c18Prep)
	orch.Register("c18.run", c18Run)
}

// c18Prepared is what the preparation job hands to the concurrent job.
type c18Prepared struct {
	Q      []apiQuery            `json:"q"`
	Ref    map[uint32][][]string `json:"ref"`
	First  uint32                `json:"first"`
	Tip    uint32                `json:"tip"`
	Final  string                `json:"final"`
	Tables map[string]string     `json:"tables"`
}

type apiQuery struct {
	Name   string      `json:"name"`
	Method string      `json:"method"`
	Params interface{} `json:"params"`
}

func freePort() int {
	l, err := net.Listen("tcp", "127.0.0.1:0")
	if err != nil {
		return 18099
	}
	defer l.Close()
	return l.Addr().(*net.TCPAddr).Port
}

var httpc = &http.Client{Timeout: 30 * time.Second, Transport: &http.Transport{MaxIdleConnsPerHost: 64}}

func callAPI(port int, q apiQuery) ([]byte, error) {
	body, _ := json.Marshal(map[string]interface{}{"jsonrpc": "2.0", "id": 1, "method": q.Method, "params": q.Params})
	resp, err := httpc.Post(fmt.Sprintf("http://127.0.0.1:%d/v1", port), "application/json", bytes.NewReader(body))
	if err != nil {
		return nil, err
	}
	defer resp.Body.Close()
	return io.ReadAll(resp.Body)
}

// abortAPI sends a request and goes away before the answer: after the pause it shuts down its sending
// side (the server sees the peer hang up and cancels the request's context while the handler runs),
// then drains whatever still comes back so that the load stays closed-loop (requests do not pile up
// faster than the daemon serves them). hard = close both directions at once instead.
func abortAPI(port int, q apiQuery, pause time.Duration, hard bool) error {
	body, _ := json.Marshal(map[string]interface{}{"jsonrpc": "2.0", "id": 1, "method": q.Method, "params": q.Params})
	cn, err := net.DialTimeout("tcp", fmt.Sprintf("127.0.0.1:%d", port), 5*time.Second)
	if err != nil {
		return err
	}
	defer cn.Close()
	fmt.Fprintf(cn, "POST /v1 HTTP/1.1\r\nHost: 127.0.0.1\r\nContent-Type: application/json\r\nContent-Length: %d\r\n\r\n%s", len(body), body)
	if pause > 0 {
		time.Sleep(pause)
	}
	if hard {
		return nil
	}
	if tc, ok := cn.(*net.TCPConn); ok {
		tc.CloseWrite()
	}
	cn.SetReadDeadline(time.Now().Add(30 * time.Second))
	io.Copy(io.Discard, cn)
	return nil
}

var reFactomHeight = regexp.MustCompile(`"factomheight":-?[0-9]+`)
var reStopHeight = regexp.MustCompile(`"stopheight":-?[0-9]+`)
var rePusd = regexp.MustCompile(`,"pusd":[0-9]+`)
var rePusdOnly = regexp.MustCompile(`"pusd":[0-9]+`)

// parts splits a response into independently-read parts, each normalized.
func responseParts(q apiQuery, raw []byte) []string {
	var env struct {
		Result json.RawMessage `json:"result"`
		Error  json.RawMessage `json:"error"`
	}
	if err := json.Unmarshal(raw, &env); err != nil {
		return []string{"unparsable:" + string(raw)}
	}
	if len(env.Error) > 0 && string(env.Error) != "null" {
		return []string{"error:" + string(env.Error)}
	}
	res := string(env.Result)
	res = reFactomHeight.ReplaceAllString(res, `"factomheight":0`)
	switch q.Method {
	case "get-rich-list":
		return []string{rePusd.ReplaceAllString(res, "")}
	case "get-global-rich-list":
		// Not compared: the ranking combines balances, rates and averages read one after the other, so an
		// answer may legitimately mix two committed states and match the reference of neither. The handler
		// still runs under the race detector, and what it does to shared state shows in the ledger differential.
		return []string{"global-rich-list (answer not compared)"}
	case "get-miner-distribution":
		// the range is derived from the sync height (first read) and clamped to the newest height with
		// winners (second read): "stopheight" may come from a later committed state than the rest. The rows
		// of committed heights never change, so everything else must equal the reference of ONE height.
		return []string{reStopHeight.ReplaceAllString(res, `"stopheight":0`)}
	case "get-transactions", "get-transaction":
		var r struct {
			Actions    json.RawMessage `json:"actions"`
			Count      int             `json:"count"`
			NextOffset int             `json:"nextoffset"`
		}
		if json.Unmarshal(env.Result, &r) == nil {
			return []string{fmt.Sprintf("count=%d", r.Count), "actions=" + string(r.Actions)}
		}
	case "get-pegnet-issuance":
		var r struct {
			SyncStatus json.RawMessage `json:"syncstatus"`
			Issuance   json.RawMessage `json:"issuance"`
		}
		if json.Unmarshal(env.Result, &r) == nil {
			return []string{"sync=" + reFactomHeight.ReplaceAllString(string(r.SyncStatus), `"factomheight":0`), "issuance=" + string(r.Issuance)}
		}
	}
	return []string{res}
}

type c18Read struct {
	Client int
	Q      int
	Call   int64
	Return int64
	Parts  []string
	Lo, Hi uint32
}

type regInput struct {
	Commit uint32   // != 0: commit of this height
	Set    []uint32 // read: heights whose reference answer equals the response part
	Desc   string
}

func c18Model(initial uint32) porcupine.Model {
	return porcupine.Model{
		Init: func() interface{} { return initial },
		Step: func(state, input, output interface{}) (bool, interface{}) {
			st := state.(uint32)
			in := input.(regInput)
			if in.Commit != 0 {
				return in.Commit == st+1, in.Commit
			}
			// the answer must be that of a block that is committed (possibly not the latest one)
			for _, h := range in.Set {
				if h <= st {
					return true, st
				}
			}
			return false, st
		},
		DescribeOperation: func(input, output interface{}) string {
			in := input.(regInput)
			if in.Commit != 0 {
				return fmt.Sprintf("commit(%d)", in.Commit)
			}
			return fmt.Sprintf("read %s ∈ %v", in.Desc, in.Set)
		},
	}
}

// c18Prep forges the chain and records the reference answer of every query at every height
// (sequentially: the daemon is idle while the lab asks). Runs without the race detector.
func c18Prep(j *orch.Job, r *orch.Result) error {
	var p c18Params
	json.Unmarshal(j.Params, &p)
	j.Dir = p.Dir
	rng := rand.New(rand.NewSource(p.Seed))
	// ---- forge a chain under the final rule set (averages, rich lists, staking all active)
	e := LateEras(1070)
	mo := gen.DefaultMixedOpts()
	mo.TxPerBlock = 5
	mo.UngradedProb = 0.05
	tip := e.Pegnet + uint32(p.Blocks)
	c, _, ref, err := ForgeChain(ForgeOpts{Profile: "c18", Seed: p.Seed, Eras: e, Upto: tip, ShortAvg: 12, Mixed: &mo, Dir: j.Dir, KeepDB: true,
		Customize: func(m *gen.Mixed) {
			// an asset whose average is unavailable for a while, with conversions into it waiting: what the API
			// handlers do to the shared averages cache between two blocks then matters for the ledger
			ts := gen.AddTies(m, p.Seed)
			featAvgUnavailable(m, ts, &modelParams{Seed: p.Seed})
		}})
	if err != nil {
		return err
	}
	// ---- the query list, from what the chain contains
	refdb, err := harness.OpenRO(filepath.Join(j.Dir, "refdb.v4"))
	if err != nil {
		return err
	}
	var addrs []string
	rows, _ := refdb.Query("SELECT address FROM pn_addresses ORDER BY peg_balance DESC LIMIT 40")
	for rows.Next() {
		var a []byte
		rows.Scan(&a)
		addrs = append(addrs, "FA"+hex.EncodeToString(a)) // placeholder, replaced below
	}
	rows.Close()
	bal, _, _ := harness.ReadBalances(refdb, "pn_addresses")
	var faddrs []string
	for a := range bal {
		faddrs = append(faddrs, a.String())
	}
	sort.Strings(faddrs)
	var hashes []string
	rows, _ = refdb.Query("SELECT hex(entry_hash) FROM pn_history_txbatch WHERE blockorder >= 0 AND height > ? ORDER BY height, blockorder", e.PIP10)
	for rows.Next() {
		var h string
		rows.Scan(&h)
		hashes = append(hashes, strings.ToLower(h))
	}
	rows.Close()
	refdb.Close()
	pick := func(l []string, n int) []string {
		var out []string
		for i := 0; i < n && len(l) > 0; i++ {
			out = append(out, l[rng.Intn(len(l))])
		}
		return out
	}
	var Q []apiQuery
	add := func(name, method string, params interface{}) { Q = append(Q, apiQuery{name, method, params}) }
	add("sync-status", "get-sync-status", nil)
	add("issuance", "get-pegnet-issuance", nil)
	for _, a := range pick(faddrs, 5) {
		add("balances", "get-pegnet-balances", map[string]interface{}{"address": a})
		add("tx-by-address", "get-transactions", map[string]interface{}{"address": a})
		add("tx-by-address-desc", "get-transactions", map[string]interface{}{"address": a, "desc": true})
	}
	for _, as := range []string{"PEG", "pUSD", "pXBT", "pFCT"} {
		add("rich-list", "get-rich-list", map[string]interface{}{"asset": as, "count": 8})
	}
	add("global-rich-list", "get-global-rich-list", map[string]interface{}{"count": 5})
	for _, h := range pick(hashes, 5) {
		add("tx-status", "get-transaction-status", map[string]interface{}{"entryhash": h})
		add("tx-by-hash", "get-transactions", map[string]interface{}{"entryhash": h})
		add("tx-by-txid", "get-transaction", map[string]interface{}{"txid": "0-" + h})
	}
	for _, h := range []uint32{e.PIP10 + 3, e.Pegnet + uint32(p.Blocks)/2, tip - 2} {
		add("tx-by-height", "get-transactions", map[string]interface{}{"height": h})
		add("rates-at", "get-pegnet-rates", map[string]interface{}{"height": h})
		add("graded-at", "get-graded", map[string]interface{}{"height": h})
	}
	add("rates-current", "get-pegnet-rates", map[string]interface{}{})
	add("graded-current", "get-graded", map[string]interface{}{})
	add("miner-distribution", "get-miner-distribution", map[string]interface{}{"start": 0, "stop": -5})
	add("properties", "properties", nil)

	setAvg(12)
	port := freePort()
	conf := viper.New()
	conf.Set(config.APIListen, fmt.Sprintf("127.0.0.1:%d", port))

	// ---- reference answers per height (sequential: the daemon is idle while the lab asks)
	startAPI := func(n *harness.Node) (chan struct{}, <-chan struct{}) {
		stop := make(chan struct{})
		done := srv.NewAPIServer(conf, n.P).Start(stop)
		for i := 0; i < 200; i++ {
			if cn, err := net.Dial("tcp", fmt.Sprintf("127.0.0.1:%d", port)); err == nil {
				cn.Close()
				break
			}
			time.Sleep(5 * time.Millisecond)
		}
		return stop, done
	}
	first := e.PIP10 + 2 // the concurrent phase starts here
	refAns := map[uint32][][]string{}
	{
		n, err := harness.StartNode(harness.NodeConfig{DBPath: filepath.Join(j.Dir, "refapi")}, c)
		if err != nil {
			return err
		}
		stop, done := startAPI(n)
		n.Run()
		for h := e.Pegnet + 1; h <= tip; h++ {
			if err := n.WaitSynced(h, harness.WaitOpts{}); err != nil {
				if h >= first && (errors.Is(err, harness.ErrFatal) || errors.Is(err, harness.ErrWedged)) {
					// the very same chain was applied without any API request a moment ago (ForgeChain above): the only
					// difference is that the lab asked its questions, one at a time, between two blocks
					kind := "wedged"
					if errors.Is(err, harness.ErrFatal) {
						kind = "fatal"
					}
					r.Violate("C18", "sync-stopped-by-sequential-api-requests kind="+kind,
						fmt.Sprintf("block %d could not be applied after the API had answered %d read requests between blocks (no two requests at the same time, none during a block); the same chain syncs without API requests. %v; last daemon error: %s", h, len(Q), err, harness.LastDaemonError()),
						map[string]interface{}{"seed": p.Seed, "height": h})
					r.Info["prep_failed"] = true
					return nil
				}
				return err
			}
			if h < first-4 {
				continue // (a few heights below the start of the concurrent phase are recorded too: a stale answer is allowed)
			}
			// quiescent point: the block is committed; wait until the daemon has also published it in memory
			for i := 0; i < 400; i++ {
				raw, err := callAPI(port, apiQuery{Method: "get-sync-status"})
				if err == nil && strings.Contains(string(raw), fmt.Sprintf(`"syncheight":%d,`, h)) {
					break
				}
				time.Sleep(2 * time.Millisecond)
			}
			ans := make([][]string, len(Q))
			for qi, q := range Q {
				raw, err := callAPI(port, q)
				if err != nil {
					return fmt.Errorf("reference API call failed: %v", err)
				}
				ans[qi] = responseParts(q, raw)
			}
			refAns[h] = ans
		}
		_, _ = stop, done // the server is left running until the process exits (srv.Shutdown(nil) can panic with live connections)
		seq, derr := harness.TakeDump(n.RO, harness.DumpOptions{DropBackfill: true, KeepRows: true})
		n.Stop()
		if derr != nil {
			return derr
		}
		r.Count("sequential_differential_pairs", 1)
		if seq.Total != ref.Total {
			r.Violate("C18", "ledger-changed-by-sequential-api-requests", "the ledger computed while the API answered read requests between blocks differs from the ledger computed without any request\n"+joinLines(harness.DiffDumps(ref, seq), 8),
				map[string]interface{}{"seed": p.Seed})
		}
	}
	r.Count("reference_answers", int64(len(refAns)*len(Q)))
	prep := &c18Prepared{Q: Q, Ref: refAns, First: first, Tip: tip, Final: ref.Total, Tables: ref.Hashes}
	saveJSON(filepath.Join(p.Dir, "rows-ref.json"), ref.Tables)
	return saveJSON(filepath.Join(p.Dir, "prepared.json"), prep)
}

func c18Run(j *orch.Job, r *orch.Result) error {
	var p c18Params
	json.Unmarshal(j.Params, &p)
	var prep c18Prepared
	if err := loadJSON(filepath.Join(p.Dir, "prepared.json"), &prep); err != nil {
		return err
	}
	c, err := forge.Load(filepath.Join(p.Dir, "chain.gob"))
	if err != nil {
		return err
	}
	Q, refAns, first, tip := prep.Q, prep.Ref, prep.First, prep.Tip
	setAvg(12)
	port := freePort()
	conf := viper.New()
	conf.Set(config.APIListen, fmt.Sprintf("127.0.0.1:%d", port))
	startAPI := func(n *harness.Node) (chan struct{}, <-chan struct{}) {
		stop := make(chan struct{})
		done := srv.NewAPIServer(conf, n.P).Start(stop)
		for i := 0; i < 200; i++ {
			if cn, err := net.Dial("tcp", fmt.Sprintf("127.0.0.1:%d", port)); err == nil {
				cn.Close()
				break
			}
			time.Sleep(5 * time.Millisecond)
		}
		return stop, done
	}

	// ---- concurrent phase
	n, err := harness.StartNode(harness.NodeConfig{DBPath: filepath.Join(j.Dir, "conc"), Wrap: true}, c)
	if err != nil {
		return err
	}
	type commitEv struct {
		h      uint32
		t0, t1 int64
	}
	var cmu sync.Mutex
	var commits []commitEv
	txHeight := map[int64]uint32{}
	drng := rand.New(rand.NewSource(p.Seed ^ 77))
	var dmu sync.Mutex
	var apiReadsFailed int64
	vdriver.Set(&vdriver.Hooks{
		Decide: func(ev *vdriver.Event) (vdriver.Action, time.Duration) {
			if !ev.InTx {
				// now and then a read issued by an API handler fails (a busy database, an I/O error): the request
				// may fail, the daemon and its ledger must not notice. Reads of the sync loop are left alone
				// (a failing read there ends in crash-stop and restart, which is C10's subject).
				if p.FailAPIReadsPct > 0 && (ev.Kind == vdriver.KQuery || ev.Kind == vdriver.KExec) {
					dmu.Lock()
					x := drng.Intn(1000)
					dmu.Unlock()
					if x < p.FailAPIReadsPct && vdriver.CallerHas("pegnetd/srv.(*APIServer)") {
						atomic.AddInt64(&apiReadsFailed, 1)
						return vdriver.FailInstead, 0
					}
				}
				return vdriver.Proceed, 0
			}
			if ev.Kind == vdriver.KCommit {
				return vdriver.DelayProceed, 1500 * time.Microsecond // widen the window between the in-memory bump and COMMIT
			}
			dmu.Lock()
			x := drng.Intn(100)
			dmu.Unlock()
			if x < p.DelayPct {
				return vdriver.DelayProceed, 200 * time.Microsecond
			}
			return vdriver.Proceed, 0
		},
		Record: func(ev *vdriver.Event) {
			// the height a COMMIT publishes is the one its transaction wrote into pn_metadata
			if ev.Kind == vdriver.KExec && strings.HasPrefix(ev.SQL, "REPLACE INTO pn_metadata") && len(ev.Args) == 2 {
				var bs struct{ Synced uint32 }
				var raw []byte
				switch x := ev.Args[1].(type) {
				case []byte:
					raw = x
				case string:
					raw = []byte(x)
				}
				if json.Unmarshal(raw, &bs) == nil {
					cmu.Lock()
					txHeight[ev.Conn] = bs.Synced
					cmu.Unlock()
				}
			}
			if ev.Kind == vdriver.KCommit && ev.Err == "" {
				cmu.Lock()
				if h, ok := txHeight[ev.Conn]; ok {
					commits = append(commits, commitEv{h, ev.T0, ev.T1})
					delete(txHeight, ev.Conn)
				}
				cmu.Unlock()
			}
		},
	})
	stop, done := startAPI(n)
	n.Run()
	if err := n.WaitSynced(first-1, harness.WaitOpts{}); err != nil {
		return err
	}
	time.Sleep(10 * time.Millisecond)
	cmu.Lock()
	commits = nil
	cmu.Unlock()

	var reads []c18Read
	var rmu sync.Mutex
	var stopClients int32
	var wg sync.WaitGroup
	var apiErrors int64
	for ci := 0; ci < p.Clients; ci++ {
		wg.Add(1)
		go func(ci int) {
			defer wg.Done()
			crng := rand.New(rand.NewSource(p.Seed*131 + int64(ci)))
			for atomic.LoadInt32(&stopClients) == 0 {
				qi := crng.Intn(len(Q))
				if crng.Intn(3) == 0 {
					qi = crng.Intn(min(len(Q), 24)) // emphasis: sync status, issuance, balances, rich lists
				}
				lo, _ := n.Synced()
				t0 := vdriver.Now()
				raw, err := callAPI(port, Q[qi])
				t1 := vdriver.Now()
				if err != nil {
					atomic.AddInt64(&apiErrors, 1)
					continue
				}
				hi, _ := n.Synced()
				time.Sleep(time.Duration(2+crng.Intn(6)) * time.Millisecond)
				rd := c18Read{Client: ci, Q: qi, Call: t0, Return: t1, Parts: responseParts(Q[qi], raw), Lo: lo, Hi: hi}
				rmu.Lock()
				reads = append(reads, rd)
				rmu.Unlock()
			}
		}(ci)
	}
	// impatient clients: they send requests (rich lists first of all: the most work per request) and
	// hang up at once or a moment later. Their answers are never read, so they are judged only through
	// the final ledger differential, the race detector and the daemon staying alive.
	var aborted int64
	heavy := []int{}
	for qi, q := range Q {
		if strings.Contains(q.Method, "rich") {
			heavy = append(heavy, qi)
		}
	}
	for ci := 0; ci < 2+p.Clients/4; ci++ {
		wg.Add(1)
		go func(ci int) {
			defer wg.Done()
			crng := rand.New(rand.NewSource(p.Seed*977 + int64(ci)))
			for atomic.LoadInt32(&stopClients) == 0 {
				qi := crng.Intn(len(Q))
				if len(heavy) > 0 && crng.Intn(3) != 0 {
					qi = heavy[crng.Intn(len(heavy))]
				}
				pause := time.Duration(0)
				if crng.Intn(2) == 0 {
					pause = time.Duration(crng.Intn(3000)) * time.Microsecond
				}
				hard := crng.Intn(12) == 0
				if abortAPI(port, Q[qi], pause, hard) == nil {
					atomic.AddInt64(&aborted, 1)
				}
				if hard {
					time.Sleep(40 * time.Millisecond) // open-loop: keep these rare
				}
				time.Sleep(time.Duration(1+crng.Intn(4)) * time.Millisecond)
			}
		}(ci)
	}
	// sync in segments; one history per segment
	segStart := first - 1
	violations := 0
	for segStart < tip {
		segEnd := segStart + uint32(p.Segment)
		if segEnd > tip {
			segEnd = tip
		}
		if err := n.WaitSynced(segEnd, harness.WaitOpts{Watchdog: 300 * time.Second}); err != nil {
			atomic.StoreInt32(&stopClients, 1)
			wg.Wait()
			if errors.Is(err, harness.ErrFatal) {
				// the same chain was applied twice before without concurrent requests (forging, reference answers)
				cls := reNum.ReplaceAllString(reHex.ReplaceAllString(harness.LastDaemonError(), "H"), "N")
				if len(cls) > 90 {
					cls = cls[:90]
				}
				r.Violate("C18", "daemon-exited-under-api-load err="+cls,
					fmt.Sprintf("the daemon called log.Fatal (process exit) while applying a block of segment %d..%d under concurrent API requests; the same chain syncs without them. last daemon error: %s", segStart, segEnd, harness.LastDaemonError()),
					map[string]interface{}{"seed": p.Seed, "segment": []uint32{segStart, segEnd}, "aborted_requests_so_far": atomic.LoadInt64(&aborted)})
				return nil
			}
			return fmt.Errorf("sync under API load: %v; last daemon error: %s", err, harness.LastDaemonError())
		}
		// the database shows segEnd as committed; the driver hook that records that COMMIT (with its times) runs right
		// after the statement returns - wait for the record itself, not for a span of time (on a loaded machine the
		// recording goroutine can be preempted for long: a thorough run once judged a segment without its last commit)
		for w := 0; w < 120000; w++ {
			cmu.Lock()
			have := len(commits) > 0 && commits[len(commits)-1].h >= segEnd
			cmu.Unlock()
			if have || segEnd == segStart {
				break
			}
			time.Sleep(time.Millisecond)
		}
		time.Sleep(30 * time.Millisecond) // let in-flight requests finish inside the segment (late ones go to the next)
		rmu.Lock()
		segReads := reads
		reads = nil
		rmu.Unlock()
		cmu.Lock()
		segCommits := commits
		commits = nil
		cmu.Unlock()
		// ---- judge the segment
		// commit windows: state h is possible from the call of COMMIT(h) to the return of COMMIT(h+1)
		ct0 := map[uint32]int64{}
		ct1 := map[uint32]int64{}
		for _, cm := range segCommits {
			ct0[cm.h], ct1[cm.h] = cm.t0, cm.t1
		}
		feasible := func(h uint32, call, ret int64) bool {
			if t0, ok := ct0[h]; ok && t0 > ret {
				return false // answered before COMMIT(h) was even issued
			}
			if h > segEnd {
				return false
			}
			return true // an older committed state is stale, not uncommitted: the property allows it
		}
		var ops []porcupine.Operation
		for _, cm := range segCommits {
			ops = append(ops, porcupine.Operation{ClientId: 0, Input: regInput{Commit: cm.h}, Call: cm.t0, Return: cm.t1})
		}
		sampleEvery := 1 + len(segReads)/1500
		for ri, rd := range segReads {
			for pi, part := range rd.Parts {
				if strings.HasPrefix(part, "error:") {
					// an error answer shows no state at all; counted, not judged (availability is not C18's subject)
					if a, ok := refAns[rd.Hi]; !ok || pi >= len(a[rd.Q]) || a[rd.Q][pi] != part {
						r.Count("error_responses_not_judged", 1)
						r.Seen("error_texts", clipS(part, 160))
						continue
					}
				}
				var set []uint32
				for h := first - 4; h <= segEnd+1 && h <= tip; h++ {
					if ans, ok := refAns[h]; ok && pi < len(ans[rd.Q]) && ans[rd.Q][pi] == part {
						set = append(set, h)
					}
				}
				r.Count("responses_checked", 1)
				r.Seen("methods", Q[rd.Q].Name)
				if rd.Lo != rd.Hi {
					r.Count("responses_overlapping_a_commit", 1)
				}
				desc := fmt.Sprintf("%s#%d", Q[rd.Q].Name, pi)
				ok := false
				for _, h := range set {
					if feasible(h, rd.Call, rd.Return) {
						ok = true
					}
				}
				if !ok {
					violations++
					if violations <= 6 {
						pj, _ := json.Marshal(Q[rd.Q].Params)
						// which heights does the answer correspond to at all?
						var any []uint32
						for h, ans := range refAns {
							if pi < len(ans[rd.Q]) && ans[rd.Q][pi] == part {
								any = append(any, h)
							}
						}
						sort.Slice(any, func(a, b int) bool { return any[a] < any[b] })
						why, sig := "", ""
						switch {
						case len(any) == 0:
							sig = fmt.Sprintf("response-matches-no-committed-state method=%s part=%d", Q[rd.Q].Method, pi)
							near := ""
							if a, ok := refAns[rd.Hi]; ok && pi < len(a[rd.Q]) {
								near = clipS(a[rd.Q][pi], 400)
							}
							why = fmt.Sprintf("it equals the reference answer of no height at all (a mix of two states, or a state no committed block produces).\nreference at %d: %s", rd.Hi, near)
						case any[0] > rd.Hi || (ct0[any[0]] > rd.Return):
							sig = fmt.Sprintf("uncommitted-state-visible method=%s", Q[rd.Q].Method)
							why = fmt.Sprintf("it is the answer of height(s) %v, but the response was received (t=%d) before COMMIT of height %d was issued (t=%d): the API showed a block that was not committed", any, rd.Return, any[0], ct0[any[0]])
						default:
							sig = fmt.Sprintf("uncommitted-state-visible method=%s", Q[rd.Q].Method)
							why = fmt.Sprintf("it is the answer of height(s) %v, none of which was committed when the response was received", any)
						}
						r.Violate("C18", sig, fmt.Sprintf("response of %s %s (part %d): %s\ncommitted height was %d before the request and %d after.\nresponse part: %s",
							Q[rd.Q].Method, pj, pi, why, rd.Lo, rd.Hi, clipS(part, 400)),
							map[string]interface{}{"seed": p.Seed, "method": Q[rd.Q].Method, "params": Q[rd.Q].Params, "lo": rd.Lo, "hi": rd.Hi, "matches_heights": any})
					}
					continue
				}
				if ri%sampleEvery == 0 {
					ops = append(ops, porcupine.Operation{ClientId: rd.Client + 1, Input: regInput{Set: set, Desc: desc}, Call: rd.Call, Return: rd.Return})
				}
			}
		}
		// the commit record must be complete for the history to mean anything
		complete := len(segCommits) == int(segEnd-segStart)
		for i, cm := range segCommits {
			if cm.h != segStart+1+uint32(i) {
				complete = false
			}
		}
		if !complete {
			r.Inconclusive = append(r.Inconclusive, fmt.Sprintf("segment %d..%d: the record of commits is not contiguous (%d records): history not judged", segStart, segEnd, len(segCommits)))
			segStart = segEnd
			continue
		}
		// cross-response consistency (a later request must not see an older state than an earlier, finished one): porcupine on a sample
		res, _ := porcupine.CheckOperationsVerbose(c18Model(segStart), ops, 90*time.Second)
		r.Count("histories", 1)
		r.Count("history_ops", int64(len(ops)))
		switch res {
		case porcupine.Unknown:
			r.Count("porcupine_timeouts", 1)
		case porcupine.Illegal:
			r.Violate("C18", "history-not-linearizable", fmt.Sprintf("segment %d..%d: the history of %d commits and sampled responses cannot be ordered so that every response shows a block that is already committed", segStart, segEnd, len(ops)),
				map[string]interface{}{"seed": p.Seed, "segment": []uint32{segStart, segEnd}, "ops": len(ops)})
		}
		segStart = segEnd
	}
	atomic.StoreInt32(&stopClients, 1)
	wg.Wait()
	_, _ = stop, done // see above: no shutdown of the API server
	vdriver.Set(nil)
	final, err := harness.TakeDump(n.RO, harness.DumpOptions{DropBackfill: true, KeepRows: true})
	n.Stop()
	if err != nil {
		return err
	}
	r.Count("api_errors", atomic.LoadInt64(&apiErrors))
	r.Count("requests_aborted_by_client", atomic.LoadInt64(&aborted))
	r.Count("api_reads_failed_by_injection", atomic.LoadInt64(&apiReadsFailed))
	r.Count("differential_pairs", 1)
	if final.Total != prep.Final {
		var rows map[string][]string
		loadJSON(filepath.Join(p.Dir, "rows-ref.json"), &rows)
		ref := &harness.Dump{Tables: rows, Hashes: prep.Tables}
		r.Violate("C18", "ledger-changed-by-api-load", "the ledger computed while serving API requests (B) differs from the ledger computed without (A)\n"+joinLines(harness.DiffDumps(ref, final), 8),
			map[string]interface{}{"seed": p.Seed})
	}
	r.Sample(map[string]interface{}{"seed": p.Seed, "clients": p.Clients, "blocks": p.Blocks, "queries": len(Q), "example_query": Q[2].Method})
	return nil
}


var reRaceBlock = regexp.MustCompile(`(?s)WARNING: DATA RACE.*?={18}`)
var rePegFrame = regexp.MustCompile(`github\.com/pegnet/pegnetd/[A-Za-z0-9_/]+\.\(?\*?[A-Za-z0-9_]*\)?\.?[A-Za-z0-9_.]*`)

// raceSignatures de-duplicates race reports by the set of pegnetd functions involved.
func raceSignatures(log string) map[string]string {
	out := map[string]string{}
	for _, blk := range reRaceBlock.FindAllString(log, -1) {
		fr := rePegFrame.FindAllString(blk, -1)
		seen := map[string]bool{}
		var fs []string
		for _, f := range fr {
			f = strings.TrimPrefix(f, "github.com/pegnet/pegnetd/")
			if !seen[f] {
				seen[f] = true
				fs = append(fs, f)
			}
		}
		if len(fs) == 0 {
			continue // no daemon frame: not attributed to pegnetd
		}
		sort.Strings(fs)
		if len(fs) > 4 {
			fs = fs[:4]
		}
		key := strings.Join(fs, " | ")
		if _, ok := out[key]; !ok {
			out[key] = clipS(blk, 2500)
		}
	}
	return out
}

func checkC18(c *Ctx) *orch.Outcome {
	o := c.NewOutcome("exploration")
	o.Rule = "one evaluation = one API response part (all read methods of the real JSON-RPC server, issued by concurrent clients while the real sync loop commits blocks, under the Go race detector). Each is matched against per-height reference answers and the whole history of {COMMIT call/return, response call/return + matching heights} is checked with porcupine against a one-register model of the committed height. Plus one differential ledger comparison per run and the race detector's reports. " +
		"Distinct non-trivial = responses whose request interval overlapped a commit (committed height before ≠ after), counted."
	o.Assumptions = []string{
		"schedules are sampled (client counts, injected delays between statements and before COMMIT), not enumerated; detection is probabilistic, alarms are sound under any timing",
		"pUSD equivalents in rich lists are not compared (they come from the cache under test); factomheight is not compared; the global rich list's answer and get-miner-distribution's stopheight are not compared (assembled from reads that may straddle a commit, which the property allows)",
		"responses assembled from two independent reads are judged per part",
		"late-era layout (all rules active), averaging window 12",
	}
	runs := 3
	blocks, clients := 70, 12
	if c.Thorough() {
		runs, blocks = 16, 110
	}
	var prepJobs, jobs []orch.Job
	for i := 0; i < runs; i++ {
		seed := c.Seed*100 + int64(i)
		cl := clients + (i%3)*10
		dir := c.R.JobDir(fmt.Sprintf("c18-chain-%d", seed))
		pj, _ := json.Marshal(c18Params{Dir: dir, Seed: seed, Blocks: blocks, Clients: cl, Segment: 10, DelayPct: 2 + (i%3)*3, FailAPIReadsPct: []int{0, 5, 20}[i%3]})
		prepJobs = append(prepJobs, orch.Job{Kind: "c18.prep", Name: fmt.Sprintf("c18-prep-%d", seed), Seed: seed, Params: pj, Timeout: 900, Dir: dir})
		jobs = append(jobs, orch.Job{Kind: "c18.run", Name: fmt.Sprintf("c18-%d", seed), Seed: seed, Params: pj, Timeout: 1800, Race: true})
	}
	pr := c.R.Run(prepJobs)
	o.Merge(pr)
	for i, r := range pr {
		if r.Crashed {
			o.Inconclusive = append(o.Inconclusive, fmt.Sprintf("%s crashed: %s", prepJobs[i].Name, clipS(r.Stderr, 600)))
		}
	}
	// a chain whose sequential pass already ended in a violation has no reference answers: its concurrent run is dropped
	var runnable []orch.Job
	for i := range jobs {
		if pr[i].Info["prep_failed"] == nil {
			runnable = append(runnable, jobs[i])
		}
	}
	jobs = runnable
	rs := c.R.Run(jobs)
	o.Merge(rs)
	raceSigs := map[string]string{}
	for i, r := range rs {
		if r.Crashed {
			sig, msg := crashSignature(r.Stderr)
			if sig == "lab-crash" {
				o.Inconclusive = append(o.Inconclusive, jobs[i].Name+": "+msg)
			} else {
				o.Violations = append(o.Violations, orch.Violation{Property: "C18", Signature: "daemon-died-under-api-load " + sig,
					Detail: "the daemon process died while serving API requests during sync: " + msg + "\n" + clipS(r.Stderr, 2000), Case: map[string]interface{}{"job": jobs[i].Name}})
			}
		}
		for k, v := range raceSignatures(r.RaceLog) {
			raceSigs[k] = v
		}
	}
	for k, v := range raceSigs {
		o.Violations = append(o.Violations, orch.Violation{Property: "C18", Signature: "data-race " + k,
			Detail: "the race detector reported a data race between daemon goroutines while the API was serving requests during sync:\n" + v})
	}
	o.Evaluations = orch.SumCounter(rs, "responses_checked")
	o.Nontrivial = orch.SumCounter(rs, "responses_overlapping_a_commit")
	o.Extra["histories_checked_with_porcupine"] = orch.SumCounter(rs, "histories")
	o.Extra["history_operations"] = orch.SumCounter(rs, "history_ops")
	o.Extra["methods"] = orch.UnionDistinct(rs, "methods")
	o.Extra["differential_pairs"] = orch.SumCounter(rs, "differential_pairs")
	o.Extra["distinct_race_reports_with_daemon_frames"] = len(raceSigs)
	o.Extra["api_transport_errors"] = orch.SumCounter(rs, "api_errors")
	o.Extra["requests_aborted_by_client"] = orch.SumCounter(rs, "requests_aborted_by_client")
	o.Extra["api_reads_failed_by_injection"] = orch.SumCounter(rs, "api_reads_failed_by_injection")
	o.Extra["error_responses_not_judged"] = orch.SumCounter(rs, "error_responses_not_judged")
	o.Extra["error_texts"] = orch.UnionDistinct(rs, "error_texts")
	o.Extra["porcupine_timeouts_counted_inconclusive_for_cross_response_order_only"] = orch.SumCounter(rs, "porcupine_timeouts")
	o.Extra["reference_answers"] = orch.SumCounter(pr, "reference_answers")
	o.MinNontrivial = 50
	return o
}
