package checks

import (
	"encoding/json"
	"fmt"
	"math/rand"
	"sort"

	"github.com/Factom-Asset-Tokens/factom"
	"github.com/pegnet/pegnetd/fat/fat2"
	"verif/lab/forge"
	"verif/lab/gen"
	"verif/lab/orch"
)

// buildWorkload sets up the generator for a monitored run.
func buildWorkload(p *modelParams) (forge.Eras, *gen.Mixed, uint32) {
	rng := rand.New(rand.NewSource(p.Seed*13 + 5))
	var e forge.Eras
	switch {
	case p.Literal:
		e = forge.Mainnet()
	case p.Late:
		e = LateEras(1070)
	case containsStr(p.Features, "align"):
		// put the developer-reward activation on the first paying snapshot height (+ the wanted offset)
		e = RandomEras(rng, false)
		s1 := ((e.V20 + 143) / 144) * 144
		d := s1 + 144 + uint32(p.AlignV20Dev) - e.V20Dev
		e.V20Dev += d
		e.SprSig += d
		e.V202 += d
		e.OneWaySmall += d
		e.V204 += d
		e.V204Burn += d
		e.PIP10 += d
	default:
		e = RandomEras(rng, true)
	}
	if p.AlignV202 > 0 {
		want := uint32(p.AlignV202 - 1)
		d := (want + 144 - e.V202%144) % 144
		e.V202 += d
		e.OneWaySmall += d
		e.V204 += d
		e.V204Burn += d
		e.PIP10 += d
	}
	mo := gen.DefaultMixedOpts()
	feat := map[string]bool{}
	for _, f := range p.Features {
		feat[f] = true
	}
	if feat["ungraded-snapshot"] && !p.Literal {
		// make sure a snapshot height lies between 2.0 and 2.0.2 (the era is stretched when it does not)
		if s := ((e.V20 + 143) / 144) * 144; s+2 >= e.V202 {
			d := s + 3 - e.V202
			e.V202 += d
			e.OneWaySmall += d
			e.V204 += d
			e.V204Burn += d
			e.PIP10 += d
		}
	}
	if feat["oneway-early"] && !p.Literal {
		// a configuration the daemon's own testing flags produce: the small-asset one-way activation (which also
		// makes PEG a one-way destination) lies before PegNet 2.0, in the pooled-bank era
		e.OneWaySmall = e.V4 + 6
	}
	if feat["snapshot-before-dev"] && !p.Literal {
		// make sure a snapshot height lies between 2.0 and the developer-reward activation: staking snapshots start
		// with 2.0, not with the later activations that also act once a day
		if s := ((e.V20 + 143) / 144) * 144; s+2 >= e.V20Dev {
			d := s + 70 - e.V20Dev
			e.V20Dev += d
			e.SprSig += d
			e.V202 += d
			e.OneWaySmall += d
			e.V204 += d
			e.V204Burn += d
			e.PIP10 += d
		}
	}
	if feat["busy"] {
		mo.TxPerBlock = 10
	}
	if feat["quiet"] {
		mo.TxPerBlock = 2
	}
	if feat["gaps"] {
		mo.UngradedProb = 0.25
	}
	m := gen.NewMixed(e, p.Seed, mo, p.Window)
	tip := SecondSnapshot(e) + 2
	if tip < e.PIP10+20 {
		tip = e.PIP10 + 20
	}
	if p.Late {
		tip = e.PIP10 + 60
	}
	if p.Literal {
		tip = 295500
		mo.BurnProb = 0.3
		for h := e.Pegnet + 1; h <= tip; h++ {
			if !literalBusy(e, h) {
				m.ForceEmpty[h] = true
			} else if h%144 == 0 || h+1 == e.V20Dev || h == e.V20Dev {
				m.ForceGraded[h] = true
			}
		}
	}
	gen.TieDivisor = 1
	if feat["small-ties"] {
		gen.TieDivisor = 1000
	}
	ts := gen.AddTies(m, p.Seed)
	w := ts.Whale
	burnOld, _ := factom.NewFAAddress("FA1y5ZGuHSLmf2TqNf6hVMkPiNGyQpQDTFJvDLRkKQaoPo4bmbgu")
	burnNew, _ := factom.NewFAAddress("FA2BURNBABYBURNoooooooooooooooooooooooooooooooDGvNXy")
	mint, _ := factom.NewFAAddress("FA3j16WPCiqsAFHVZcEoL85Khh5RhPCNe6PWHBKgUxrx8MAnbNoy")
	pay := func(h uint32, to factom.FAAddress, asset fat2.PTicker, amt uint64) {
		if h <= e.TxConv+7 {
			return
		}
		m.Schedule(h, func(v *gen.View, s *forge.BlockSpec) {
			s.Tx = append(s.Tx, forge.SignedBatch([]forge.Tx{forge.Transfer(w.FA(), asset, amt, to)}, m.W.EntryTime(h)+11, w))
		})
	}
	pay(e.TxConv+8, burnOld, fat2.PTickerUSD, 77*1e8)
	pay(e.TxConv+9, burnNew, fat2.PTickerUSD, 55*1e8)
	pay(e.TxConv+9, mint, fat2.PTickerUSD, 33*1e8)
	pay(e.V20+2, burnOld, fat2.PTickerEUR, 5*1e8)
	pay(e.V20Dev+2, burnNew, fat2.PTickerUSD, 11*1e8)
	pay(e.V202+2, burnNew, fat2.PTickerUSD, 13*1e8) // after 2.0.2: destroyed, never credited
	pay(e.V204+1, mint, fat2.PTickerUSD, 3*1e8)
	pay(e.V204Burn+2, mint, fat2.PTickerUSD, 2*1e8)
	for _, f := range p.Features {
		if fn, ok := workloadFeatures[f]; ok {
			fn(m, ts, p)
		}
	}
	return e, m, tip
}

// workloadFeatures are property-specific additions to the mixed workload.
var workloadFeatures = map[string]func(m *gen.Mixed, ts *gen.TieSetup, p *modelParams){}

// modelSpec describes how a property uses the monitored run.
type modelSpec struct {
	Level    string
	Rule     string
	Assume   []string
	Profiles func(c *Ctx) []modelParams
	// NonTrivial extracts the count of non-trivial distinct observations from the results.
	NonTrivial func(rs []*orch.Result) (int64, map[string]interface{})
	Min        int64
}

func runModelCheck(c *Ctx, spec modelSpec) *orch.Outcome {
	o := c.NewOutcome(spec.Level)
	o.Rule = spec.Rule
	o.Assumptions = append([]string{
		"one-step oracle: the reference rules are re-based on the OBSERVED previous state at every block; OPR/SPR grading verdicts are taken from the pegnet grader library called directly on the same entries",
		"compressed eras (mainnet order and equalities), averaging window 12 (thorough tier: 6, 8, 12, 16 and 20 over the profiles) unless stated",
		"shapes that reproduce recorded legacy-era findings are kept out of the default workload (DESIGN.md appendix A)",
		"every third profile also answers read-only API requests (rich lists, issuance, rates) between blocks",
		"in every second profile each 4th block fails once at its last statement (the sync-height update) and is applied again by the same process; the expectations do not change",
	}, spec.Assume...)
	var jobs []orch.Job
	for i, p := range spec.Profiles(c) {
		pj, _ := json.Marshal(p)
		jobs = append(jobs, orch.Job{Kind: "model.run", Name: fmt.Sprintf("%s-model-%d-%d", c.ID, p.Seed, i), Seed: p.Seed, Params: pj, Timeout: 2400})
	}
	rs := c.R.Run(jobs)
	// keep only this property's violations
	others := map[string]int{}
	for i, r := range rs {
		var keep []orch.Violation
		for _, v := range r.Violations {
			if v.Property == c.ID {
				keep = append(keep, v)
			} else {
				others[v.Property]++
			}
		}
		r.Violations = keep
		if r.Crashed {
			o.Inconclusive = append(o.Inconclusive, fmt.Sprintf("%s crashed (daemon crashes are C08's subject): %s", jobs[i].Name, clipS(r.Stderr, 500)))
		}
	}
	o.Merge(rs)
	nt, extra := spec.NonTrivial(rs)
	o.Nontrivial = nt
	for k, v := range extra {
		o.Extra[k] = v
	}
	o.Evaluations = orch.SumCounter(rs, "blocks_monitored")
	o.Extra["blocks_monitored"] = orch.SumCounter(rs, "blocks_monitored")
	o.Extra["balance_changes_confirmed"] = orch.SumCounter(rs, "balance_changes_confirmed")
	o.Extra["runs"] = len(jobs)
	o.Extra["blocks_applied_twice_after_a_late_failure"] = orch.SumCounter(rs, "blocks_applied_twice_after_a_late_failure")
	o.Extra["blocks_applied_twice_after_a_failure_in_mid_block"] = orch.SumCounter(rs, "blocks_applied_twice_after_a_failure_in_mid_block")
	o.Extra["blocks_applied_twice_after_a_failed_read_outside_the_transaction"] = orch.SumCounter(rs, "blocks_applied_twice_after_a_failed_read_outside_the_transaction")
	o.Extra["statements_failed_in_snapshot_blocks"] = orch.UnionDistinct(rs, "statements_failed_in_snapshot_blocks")
	o.Extra["blocks_applied_twice_after_a_failed_history_write"] = orch.SumCounter(rs, "blocks_applied_twice_after_a_failed_history_write")
	o.Extra["blocks_retried_after_a_failed_dblock_fetch"] = orch.SumCounter(rs, "blocks_retried_after_a_failed_dblock_fetch")
	o.Extra["api_requests_between_blocks"] = orch.SumCounter(rs, "api_requests_between_blocks")
	o.Extra["process_restarts_between_blocks"] = orch.SumCounter(rs, "process_restarts_between_blocks")
	if len(others) > 0 {
		o.Extra["mismatches_attributed_to_other_properties_ignored_here"] = others
	}
	o.MinNontrivial = spec.Min
	if len(o.Samples) == 0 {
		kinds := orch.UnionDistinct(rs, "event_kinds")
		if len(kinds) > 12 {
			kinds = kinds[:12]
		}
		o.Samples = append(o.Samples, map[string]interface{}{"event_kinds_observed_example": kinds})
	}
	return o
}

func containsStr(l []string, x string) bool {
	for _, s := range l {
		if s == x {
			return true
		}
	}
	return false
}

func seedsFor(c *Ctx, quick, thorough int) []int64 {
	n := quick
	if c.Thorough() {
		n = thorough
	}
	var out []int64
	for i := 0; i < n; i++ {
		out = append(out, c.Seed*1000+int64(i))
	}
	return out
}

func stdProfiles(c *Ctx, quick, thorough int, feats ...string) []modelParams {
	var ps []modelParams
	for i, s := range seedsFor(c, quick, thorough) {
		fs := feats
		if i%2 == 1 {
			fs = append(append([]string{}, feats...), "retries")
		}
		if i%4 == 0 {
			fs = append(append([]string{}, fs...), "restarts")
		}
		ps = append(ps, modelParams{Seed: s, Profile: "mixed", Late: i%3 == 2, Features: fs, Window: thoroughWindow(c, i)})
	}
	return ps
}

// thoroughWindow varies the (shortened) averaging window over the profiles of the thorough tier.
func thoroughWindow(c *Ctx, i int) uint64 {
	if !c.Thorough() {
		return 0 // default 12
	}
	return []uint64{12, 8, 20, 12, 16, 6}[i%6]
}

func distinctWithPrefix(rs []*orch.Result, set, prefix string) []string {
	var out []string
	for _, x := range orch.UnionDistinct(rs, set) {
		if len(x) >= len(prefix) && x[:len(prefix)] == prefix {
			out = append(out, x)
		}
	}
	sort.Strings(out)
	return out
}

func sumCounters(rs []*orch.Result, keys ...string) map[string]interface{} {
	out := map[string]interface{}{}
	for _, k := range keys {
		out[k] = orch.SumCounter(rs, k)
	}
	return out
}

func featProfiles(c *Ctx, quick, thorough int, lateEvery int, feats ...string) []modelParams {
	var ps []modelParams
	for i, s := range seedsFor(c, quick, thorough) {
		fs := feats
		if i%2 == 1 {
			fs = append(append([]string{}, feats...), "retries") // every 4th block fails at its last statement once and is applied again
		}
		if i%3 == 2 {
			fs = append(append([]string{}, fs...), "api-reads") // read-only API requests between blocks
		}
		if i%4 == 0 {
			fs = append(append([]string{}, fs...), "restarts") // a new daemon process takes over before every special height and one height in five
		}
		ps = append(ps, modelParams{Seed: s, Profile: "mixed", Late: lateEvery > 0 && i%lateEvery == lateEvery-1, Features: fs, Window: thoroughWindow(c, i)})
	}
	return ps
}

func init() {
	registry["C03"] = func(c *Ctx) *orch.Outcome {
		return runModelCheck(c, modelSpec{Level: "exploration",
			Rule: "one evaluation = one well-signed batch (1..6 transactions, transfers and conversions mixed, amounts at balance-1 / balance / balance+1, several draws on one balance, self-credits, conversion then spending the converted asset, zero and 2^63-1 amounts) considered by the real daemon on top of an adaptively forged ledger; after the block every balance must equal the two-pass reference rule's prediction (executed completely or not at all), the recorded status must be the predicted one, and no balance column may be negative. Distinct non-trivial = (kind, verdict code, era) outcome classes observed.",
			Profiles: func(c *Ctx) []modelParams { return featProfiles(c, 4, 64, 3, "c03", "c16", "c13") },
			NonTrivial: func(rs []*orch.Result) (int64, map[string]interface{}) {
				k := orch.UnionDistinct(rs, "outcome_classes")
				ex := sumCounters(rs, "batch_outcomes_checked")
				ex["outcome_classes"] = k
				return int64(len(k)), ex
			}, Min: 12})
	}
	registry["C07"] = func(c *Ctx) *orch.Outcome {
		return runModelCheck(c, modelSpec{Level: "exploration",
			Rule: "one evaluation = one conversion (all asset pairs of the era, amounts 1..balance incl. tiny ones, rates drifting every block) submitted at h; the reference rule holds it until the first later block with rates r and credits floor(in×S/D) with the rates of r (S=min(spot,avg), D=max(spot,avg) from PIP-10); compared with balances, recorded status height and recorded to_amount; additionally out×D_spot ≤ in×S_spot is asserted on the recorded amounts. Distinct non-trivial = conversions whose recorded amount was compared, of which those priced by an average ≠ spot are counted separately.",
			Profiles: func(c *Ctx) []modelParams { return featProfiles(c, 4, 64, 2, "c07", "gaps", "avg-unavailable", "ungraded-snapshot", "c16") },
			NonTrivial: func(rs []*orch.Result) (int64, map[string]interface{}) {
				ex := sumCounters(rs, "conversion_amounts_checked", "value_bounds_checked", "conversions_priced_by_average", "events_C07",
					"unrated_blocks_with_conversions_waiting", "unrated_snapshot_blocks_from_v202_with_conversions_waiting", "waiting_batches_checked_in_unrated_blocks")
				return orch.SumCounter(rs, "conversion_amounts_checked"), ex
			}, Min: 200})
	}
	registry["C11"] = func(c *Ctx) *orch.Outcome {
		return runModelCheck(c, modelSpec{Level: "exploration",
			Rule: "one evaluation = one block with an OPR set (0..65 records: valid, wrong version for the height, duplicates, outliers, unparsable payout addresses, one short of / exactly the winner count) and from 2.0 an SPR set (holders, non-holders, broken signatures, wrong versions) and a factoid block (burns and near-misses: two inputs, FCT outputs, foreign EC address, non-zero EC amount, after 2.0); the PEG / pFCT delta of every address must equal the payouts the grader library assigns to the winning records naming it (top-100 filter on the previous state) plus its valid burns, and each paid record must have exactly one coinbase row of that amount. Distinct non-trivial = (reward/burn event kind, era) pairs + coinbase rows compared.",
			Assume: []string{"staking records whose staker id is claimed by a foreign key (recorded finding) run only in the tagged scenario"},
			Profiles: func(c *Ctx) []modelParams {
				ps := featProfiles(c, 4, 64, 3, "c11")
				ps = append(ps, modelParams{Seed: c.Seed*1000 + 600, Features: []string{"quiet", "spr-impostor"}})
				ps = append(ps, modelParams{Seed: c.Seed*1000 + 601, Features: []string{"quiet", "oob-pre202"}})
				return ps
			},
			NonTrivial: func(rs []*orch.Result) (int64, map[string]interface{}) {
				var k []string
				for _, p := range []string{"opr-reward", "spr-reward", "fct-burn"} {
					k = append(k, distinctWithPrefix(rs, "event_kinds", p)...)
				}
				ex := sumCounters(rs, "coinbase_rows_checked", "events_C11", "spr_records_with_odd_length_staker_id")
				ex["reward_event_era_pairs"] = k
				return int64(len(k)), ex
			}, Min: 12})
	}
	registry["C12"] = func(c *Ctx) *orch.Outcome {
		return runModelCheck(c, modelSpec{Level: "exploration",
			Rule: "one evaluation = one block whose OPR and SPR winners agree, differ inside the band, sit one unit inside/outside its edge, or (from 2.0.2) differ beyond it for some assets; the pn_rate rows of the block must be exactly the rule's (winner[0] of each grade, band of the era, PEG by pricing phase from the previous state's supplies), a block without winners must have no rows and execute no held conversion, and rows of earlier heights must never change. Distinct non-trivial = rated blocks compared, per era.",
			Assume: []string{"OPR outside the SPR band before 2.0.2 (recorded finding: the block returns early) runs only in the tagged scenario"},
			Profiles: func(c *Ctx) []modelParams { return featProfiles(c, 4, 64, 3, "c12", "gaps", "ungraded-snapshot") },
			NonTrivial: func(rs []*orch.Result) (int64, map[string]interface{}) {
				ex := sumCounters(rs, "rated_blocks_compared", "rate_blocks_checked",
					"unrated_blocks_with_conversions_waiting", "unrated_snapshot_blocks_from_v202_with_conversions_waiting", "waiting_batches_checked_in_unrated_blocks")
				ex["eras_with_rated_blocks"] = orch.UnionDistinct(rs, "rate_eras")
				return orch.SumCounter(rs, "rated_blocks_compared"), ex
			}, Min: 100})
	}
	registry["C13"] = func(c *Ctx) *orch.Outcome {
		return runModelCheck(c, modelSpec{Level: "exploration",
			Rule: "one evaluation = one conversion from a funded address into a destination of every class (pFCT, PEG, small-cap assets, ordinary assets), submitted at activation-3 … activation+2 of every activation; the admission rule of the statement decides executed / rejected(-2,-3,-4,-5) / dropped, compared with balances and recorded status. Distinct non-trivial = (verdict code, era) classes observed for conversions.",
			Profiles: func(c *Ctx) []modelParams {
				ps := featProfiles(c, 4, 64, 0, "c13", "avg-unavailable", "c16")
				// the one-way activation of the small assets and PEG placed before 2.0 (a configuration, not mainnet's)
				n := 1
				if c.Thorough() {
					n = 6
				}
				for k := 0; k < n; k++ {
					ps = append(ps, modelParams{Seed: c.Seed*1000 + 500 + int64(k), Profile: "mixed", Features: []string{"c13", "c16", "oneway-early"}, Window: thoroughWindow(c, k)})
				}
				return ps
			},
			NonTrivial: func(rs []*orch.Result) (int64, map[string]interface{}) {
				k := distinctWithPrefix(rs, "outcome_classes", "conversion")
				ex := sumCounters(rs, "batch_outcomes_checked")
				ex["conversion_outcome_classes"] = k
				return int64(len(k)), ex
			}, Min: 14})
	}
	registry["C14"] = func(c *Ctx) *orch.Outcome {
		return runModelCheck(c, modelSpec{Level: "exploration",
			Rule: "one evaluation = one snapshot height (every 144th block from 2.0): holders' PEG deltas must equal the allocation computed from min(previous snapshot, this snapshot) per non-PEG asset valued in pUSD at the rule's rates, capped at 4500×144 PEG with the dust rule; holders absent from either snapshot get nothing. Holder sets of 8–300 addresses with totals far below / exactly at / above the cap, ties, and movements between snapshots (out, in, round trip, new address). Distinct non-trivial = paying snapshots compared.",
			Profiles: func(c *Ctx) []modelParams {
				ps := featProfiles(c, 4, 64, 0, "c14", "quiet")
				for i := range ps {
					ps[i].Upto = 144*5 + 20
					if ps[i].Seed%3 != 2 {
						ps[i].Features = append(ps[i].Features, "small-ties", "whale-exit") // total stake decided by the c14 holders: below / around the cap
					}
					if i%4 == 1 {
						ps[i].Features = append(ps[i].Features, "ungraded-snapshot") // snapshot heights without rates, before and after 2.0.2
					} else {
						ps[i].Features = append(ps[i].Features, "snapshot-before-dev") // the first snapshot lies before the developer-reward activation
					}
				}
				return ps
			},
			NonTrivial: func(rs []*orch.Result) (int64, map[string]interface{}) {
				ex := sumCounters(rs, "snapshot_blocks", "paying_snapshots", "holders_paid", "snapshots_at_cap", "events_C14", "snapshots_with_unpriced_held_assets", "unpriced_holder_asset_pairs")
				return orch.SumCounter(rs, "paying_snapshots"), ex
			}, Min: 4})
	}
	registry["C15"] = func(c *Ctx) *orch.Outcome {
		return runModelCheck(c, modelSpec{Level: "exploration",
			Rule: "one evaluation = one block; developer addresses must change by exactly the literal table (address, percent) × 2000 PEG (× 144 from 2.0.2) at heights ≥ activation with height mod 144 = 0 and by nothing unscripted elsewhere; the old burn address is zeroed at exactly the developer-reward activation, the global burn address at exactly 2.0.2, the mint table is credited at exactly 2.0.4 and what remains of it removed at exactly the burn height — all compared through full balance prediction, with the special addresses funded in several assets at several times (transfers and mining payouts). Activation alignments to the 144 cadence are drawn per chain. Distinct non-trivial = (scheduled event kind, era, V20Dev mod 144) observed.",
			Assume: []string{"the developer and mint tables and the special addresses are copied literally into the lab; the thorough tier adds a chain with the literal mainnet activation heights (206421–295500, mostly empty blocks, real 288 window)",
				"alignments with V20DevRewards % 144 < 62 hit recorded mock-txid collisions; % 144 == 0 is run as a tagged scenario"},
			Profiles: func(c *Ctx) []modelParams {
				ps := featProfiles(c, 4, 64, 0, "c15", "quiet")
				for i := range ps {
					ps[i].AlignV20Dev = -1
				}
				ps = append(ps, modelParams{Seed: c.Seed*1000 + 777, Features: []string{"c15", "quiet", "align"}, AlignV20Dev: 0})
				// the mint address's owner spends around (and in) the burn block
				ps = append(ps, modelParams{Seed: c.Seed*1000 + 790, Features: []string{"c15", "quiet", "mint-key"}, AlignV20Dev: -1})
				// the 2.0.2 activation on, right before and right after a payout/snapshot height
				al := []int{0, 143, 1}
				if c.Thorough() {
					al = []int{0, 143, 1, 2, 72, 142}
				}
				for i, a := range al {
					ps = append(ps, modelParams{Seed: c.Seed*1000 + 800 + int64(i), Features: []string{"c15", "quiet"}, AlignV20Dev: -1, AlignV202: a + 1})
				}
				if c.Thorough() {
					ps = append(ps, modelParams{Seed: c.Seed*1000 + 888, Features: []string{"c15", "quiet"}, Literal: true, AlignV20Dev: -1})
				}
				return ps
			},
			NonTrivial: func(rs []*orch.Result) (int64, map[string]interface{}) {
				var k []string
				for _, p := range []string{"developer-reward", "nullify-old-burn-address", "nullify-burn-address", "mint", "burn-minted"} {
					k = append(k, distinctWithPrefix(rs, "event_kinds", p)...)
				}
				al := orch.UnionDistinct(rs, "v20dev_alignment")
				ex := sumCounters(rs, "events_C15", "payout_heights_without_opr_and_spr_entries")
				ex["scheduled_event_kinds"] = k
				ex["v20dev_mod_144_values"] = al
				ex["v202_mod_144_values"] = orch.UnionDistinct(rs, "v202_alignment")
				return int64(len(k) + len(al)), ex
			}, Min: 8})
	}
	registry["C16"] = func(c *Ctx) *orch.Outcome {
		return runModelCheck(c, modelSpec{Level: "exploration",
			Rule: "one evaluation = one rated block of the bank era with 0..40 PEG requests (equal amounts, totals around bank-1 / bank / bank+1, far below, far above; piled up over ungraded blocks; before and after the V4 switch): yields must be full when the total fits and floor(req×bank/total)+dust otherwise, refunds the back-conversion of the unfilled part, the pn_bank row (bank, used, requested); balances, recorded yield and bank row are compared. Distinct non-trivial = bank blocks with requests (oversubscribed ones counted).",
			Assume: []string{"batches mixing a PEG request with other transactions are a recorded finding and are not generated here"},
			Profiles: func(c *Ctx) []modelParams {
				ps := featProfiles(c, 4, 64, 0, "c16", "quiet")
				ps = append(ps, modelParams{Seed: c.Seed*1000 + 650, Features: []string{"quiet", "bank-mixed-conversion"}, Upto: 110})
				return ps
			},
			NonTrivial: func(rs []*orch.Result) (int64, map[string]interface{}) {
				ex := sumCounters(rs, "bank_rows_checked", "bank_blocks_with_requests", "oversubscribed_bank_blocks", "events_C16", "peg_requests_allotted_zero_with_refund")
				return orch.SumCounter(rs, "bank_blocks_with_requests") + orch.SumCounter(rs, "events_C16")/3, ex
			}, Min: 10})
	}
	registry["C04"] = func(c *Ctx) *orch.Outcome {
		return runModelCheck(c, modelSpec{Level: "exploration",
			Rule: "one evaluation = one block applied by the real daemon; per asset, the observed change of total supply must equal the sum of the block's issuance/destruction events (mining, staking, holder and developer payouts, FCT burns, conversions, bank yield/refund, burn-address transfers, one-time adjustments) computed by the reference rules, and every address/asset balance must equal the prediction (so nobody outside the block's events changes; a transfer's debit equals its credits). Distinct non-trivial = (event kind, era) pairs observed.",
			Profiles: func(c *Ctx) []modelParams { return stdProfiles(c, 4, 64, "busy", "c03", "c13", "c16") },
			NonTrivial: func(rs []*orch.Result) (int64, map[string]interface{}) {
				k := orch.UnionDistinct(rs, "event_kinds")
				return int64(len(k)), map[string]interface{}{"event_kind_era_pairs": k, "supply_deltas_checked": orch.SumCounter(rs, "supply_deltas_checked")}
			}, Min: 25})
	}
}
