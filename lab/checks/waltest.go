package checks

import (
	"fmt"
	"os"

	"verif/lab/harness"
)

// WalTest is a debugging aid.
func WalTest(args []string) int {
	dir, _ := os.MkdirTemp("", "verif-wal-")
	defer os.RemoveAll(dir)
	e := StdEras(1000)
	c, _, ref, err := ForgeChain(ForgeOpts{Profile: "wal", Seed: 5, Eras: e, Upto: e.TxConv + 10, ShortAvg: 12, Dir: dir})
	if err != nil {
		fmt.Println(err)
		return 1
	}
	{
		n, err := harness.StartNode(harness.NodeConfig{DBPath: dir + "/x", WAL: true}, c)
		fmt.Println("start:", err)
		s, err := n.Synced()
		fmt.Println("synced before run:", s, err)
		n.Run()
		err = n.WaitSynced(c.GetTip(), harness.WaitOpts{})
		fmt.Println("wait:", err)
		_, err = harness.TakeDump(n.RO, harness.DumpOptions{})
		fmt.Println("dump:", err)
		n.Stop()
	}
	r, err := Replay(c, ReplayOpts{DBPath: dir + "/w", ShortAvg: 12, WAL: true, Wrap: true})
	fmt.Println("wal replay:", err)
	if err == nil {
		fmt.Println(r.Dump.Total == ref.Total)
	}
	r, err = Replay(c, ReplayOpts{DBPath: dir + "/w2", ShortAvg: 12, WAL: true, StepMode: true})
	fmt.Println("wal step replay:", err)
	return 0
}
