package checks

import (
	"encoding/json"
	"fmt"
	"math/rand"
	"os"
	"path/filepath"
	"sort"
	"time"

	"github.com/pegnet/pegnetd/node"
	"verif/lab/forge"
	"verif/lab/gen"
	"verif/lab/harness"
)

// VerifDir is /verif (overridable for tests).
func VerifDir() string {
	if d := os.Getenv("VERIF_DIR"); d != "" {
		return d
	}
	return "/verif"
}

// ChainMeta is saved next to a forged chain.
type ChainMeta struct {
	Profile   string            `json:"profile"`
	Seed      int64             `json:"seed"`
	Eras      forge.Eras        `json:"eras"`
	Upto      uint32            `json:"upto"`
	ShortAvg  uint64            `json:"short_avg"`
	Digest    string            `json:"digest"`
	PerHeight map[uint32]string `json:"per_height,omitempty"` // dump hash after each height (reference run)
	Final     map[string]string `json:"final"`                // table hashes at tip
	FinalAll  string            `json:"final_all"`
	Stats     map[string]int64  `json:"stats"`
	Ties      map[string]interface{} `json:"ties,omitempty"`
}

func saveJSON(path string, v interface{}) error {
	b, err := json.MarshalIndent(v, "", " ")
	if err != nil {
		return err
	}
	return os.WriteFile(path, b, 0644)
}

func loadJSON(path string, v interface{}) error {
	b, err := os.ReadFile(path)
	if err != nil {
		return err
	}
	return json.Unmarshal(b, v)
}

func setAvg(short uint64) {
	if short > 0 {
		node.AveragePeriod = short
		node.AverageRequired = short / 2
	} else {
		node.AveragePeriod = 288
		node.AverageRequired = 144
	}
}

// ForgeOpts control adaptive forging of a reference chain.
type ForgeOpts struct {
	Profile   string
	Seed      int64
	Eras      forge.Eras
	Upto      uint32
	ShortAvg  uint64
	Mixed     *gen.MixedOpts
	Ties      bool
	PerHeight bool
	// PerHeightOnly restricts the per-height dumps to these heights (nil = every height).
	PerHeightOnly map[uint32]bool
	Dir           string // where chain.gob / meta.json / ref db go
	KeepDB    bool
	// Checkpoints: copy the database file after these heights (quiescent point) into Dir/ckpt-<h>.db
	Checkpoints map[uint32]bool
	Customize   func(m *gen.Mixed)
	Each        func(n *harness.Node, h uint32, b *forge.Block) error
}

// ForgeChain runs the real daemon block by block while the generator looks at the committed
// ledger to forge the next block. The result is a chain file any other process can replay.
func ForgeChain(o ForgeOpts) (*forge.Chain, *ChainMeta, *harness.Dump, error) {
	mo := gen.DefaultMixedOpts()
	if o.Mixed != nil {
		mo = *o.Mixed
	}
	m := gen.NewMixed(o.Eras, o.Seed, mo, o.ShortAvg)
	setAvg(o.ShortAvg)
	meta := &ChainMeta{Profile: o.Profile, Seed: o.Seed, Eras: o.Eras, Upto: o.Upto, ShortAvg: o.ShortAvg, Stats: map[string]int64{}}
	if o.Ties {
		ts := gen.AddTies(m, o.Seed)
		meta.Ties = map[string]interface{}{"groups": []int{len(ts.Groups[0]), len(ts.Groups[1]), len(ts.Groups[2])}, "bank_at": ts.BankAt, "big_at": ts.BigAt}
	}
	if o.Customize != nil {
		o.Customize(m)
	}
	dbpath := filepath.Join(o.Dir, "refdb")
	n, err := harness.StartNode(harness.NodeConfig{DBPath: dbpath}, m.W.Chain)
	if err != nil {
		return nil, nil, nil, err
	}
	n.Run()
	if o.PerHeight {
		meta.PerHeight = map[uint32]string{}
	}
	err = gen.Drive(n, m, m.W, o.Upto, harness.WaitOpts{}, func(h uint32, b *forge.Block) error {
		meta.Stats["tx_entries"] += int64(len(b.Tx))
		meta.Stats["opr_entries"] += int64(len(b.OPR))
		meta.Stats["spr_entries"] += int64(len(b.SPR))
		meta.Stats["factoid_txs"] += int64(len(b.FTxs))
		if o.PerHeight && (o.PerHeightOnly == nil || o.PerHeightOnly[h]) {
			d, err := harness.TakeDump(n.RO, harness.DumpOptions{DropBackfill: true})
			if err != nil {
				return err
			}
			meta.PerHeight[h] = d.Total
		}
		if o.Checkpoints[h] {
			if err := copyFile(n.Cfg.DBFile(), filepath.Join(o.Dir, fmt.Sprintf("ckpt-%d.db", h))); err != nil {
				return err
			}
		}
		if o.Each != nil {
			return o.Each(n, h, b)
		}
		return nil
	})
	if err != nil {
		n.Stop()
		return nil, nil, nil, fmt.Errorf("forging stopped: %w", err)
	}
	final, derr := harness.TakeDump(n.RO, harness.DumpOptions{DropBackfill: true, KeepRows: true})
	n.Stop()
	if derr != nil {
		return nil, nil, nil, derr
	}
	meta.Digest = m.W.Chain.Digest()
	meta.Final = final.Hashes
	meta.FinalAll = final.Total
	if !o.KeepDB {
		os.Remove(n.Cfg.DBFile())
	}
	if err := m.W.Chain.Save(filepath.Join(o.Dir, "chain.gob")); err != nil {
		return nil, nil, nil, err
	}
	saveJSON(filepath.Join(o.Dir, "meta.json"), meta)
	return m.W.Chain, meta, final, nil
}

func copyFile(src, dst string) error {
	b, err := os.ReadFile(src)
	if err != nil {
		return err
	}
	return os.WriteFile(dst, b, 0644)
}

// ReplayOpts control a replay of a forged chain by a fresh daemon.
type ReplayOpts struct {
	DBPath       string
	Upto         uint32
	ShortAvg     uint64
	Restarts     []uint32 // clean stop/start at these block boundaries
	EntryDelayUS int      // random per-request delay (0..n µs) in the fake factomd
	DelaySeed    int64
	WAL          bool
	Sync         string
	Wrap         bool
	Watchdog     time.Duration
	KeepRows     bool
	Exclude      []string
	PerHeight    bool
	StepMode     bool // sync one block at a time (needed for PerHeight / restarts)
	MaxAttempts  int
	OnNode       func(n *harness.Node) // called after every (re)start, before Run
	AtHeight     func(n *harness.Node, h uint32) error
}

// ReplayResult is what a replay observed.
type ReplayResult struct {
	Dump      *harness.Dump
	PerHeight map[uint32]string
	Starts    int
	Requests  int
}

// Replay syncs the chain with a fresh daemon process state and dumps the ledger.
func Replay(c *forge.Chain, o ReplayOpts) (*ReplayResult, error) {
	setAvg(o.ShortAvg)
	if o.Upto == 0 {
		o.Upto = c.GetTip()
	}
	res := &ReplayResult{PerHeight: map[uint32]string{}}
	restarts := append([]uint32{}, o.Restarts...)
	sort.Slice(restarts, func(i, j int) bool { return restarts[i] < restarts[j] })
	cfg := harness.NodeConfig{DBPath: o.DBPath, WAL: o.WAL, Sync: o.Sync, Wrap: o.Wrap}
	wo := harness.WaitOpts{Watchdog: o.Watchdog, MaxAttempts: o.MaxAttempts}
	start := func() (*harness.Node, error) {
		n, err := harness.StartNode(cfg, c)
		if err != nil {
			return nil, err
		}
		res.Starts++
		if o.EntryDelayUS > 0 {
			rng := rand.New(rand.NewSource(o.DelaySeed))
			ch := make(chan time.Duration, 4096)
			go func() {
				for {
					ch <- time.Duration(rng.Intn(o.EntryDelayUS+1)) * time.Microsecond
				}
			}()
			n.Fake.SetFault(func(r harness.Req) harness.Fault {
				if r.Method == "raw-data" {
					return harness.Fault{Kind: harness.Delay, Delay: <-ch}
				}
				return harness.Fault{}
			})
		}
		if o.OnNode != nil {
			o.OnNode(n)
		}
		n.Run()
		return n, nil
	}
	n, err := start()
	if err != nil {
		return nil, err
	}
	cur, _ := n.Synced()
	if cur == 0 {
		cur = c.Eras.Pegnet
	}
	stops := map[uint32]bool{}
	for _, r := range restarts {
		stops[r] = true
	}
	step := o.StepMode || o.PerHeight || o.AtHeight != nil
	for cur < o.Upto {
		next := o.Upto
		if step {
			next = cur + 1
		} else {
			for _, r := range restarts {
				if r > cur && r < next {
					next = r
				}
			}
		}
		if err := n.WaitSynced(next, wo); err != nil {
			res.Requests += n.Fake.TotalRequests()
			n.Stop()
			return res, err
		}
		cur = next
		if o.PerHeight {
			d, err := harness.TakeDump(n.RO, harness.DumpOptions{DropBackfill: true})
			if err != nil {
				n.Stop()
				return res, err
			}
			res.PerHeight[cur] = d.Total
		}
		if o.AtHeight != nil {
			if err := o.AtHeight(n, cur); err != nil {
				n.Stop()
				return res, err
			}
		}
		if stops[cur] && cur < o.Upto {
			res.Requests += n.Fake.TotalRequests()
			n.Stop()
			n, err = start()
			if err != nil {
				return res, err
			}
		}
	}
	d, err := harness.TakeDump(n.RO, harness.DumpOptions{DropBackfill: true, KeepRows: o.KeepRows, Exclude: o.Exclude})
	res.Requests += n.Fake.TotalRequests()
	n.Stop()
	if err != nil {
		return res, err
	}
	res.Dump = d
	return res, nil
}
