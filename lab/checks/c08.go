package checks

import (
	"bytes"
	"io"
	"encoding/json"
	"errors"
	"fmt"
	"math/rand"
	"os"
	"path/filepath"
	"regexp"
	"strings"
	"sync"

	log "github.com/sirupsen/logrus"
	"verif/lab/forge"
	"verif/lab/gen"
	"verif/lab/harness"
	"verif/lab/orch"
)

// C08 Sync liveness — bounded progress + crash monitor. Hostile entries on all three tracked
// chains are added on top of a normal adaptive chain in every era. Refuted by: a daemon
// panic/exit while applying a block, or the same directory block being requested more than
// MaxAttempts times without progress (a logical-step criterion).

type c08Params struct {
	Seed   int64    `json:"seed"`
	Blocks int      `json:"blocks"`
	Kinds  []string `json:"kinds"`
	Tagged bool     `json:"tagged"`
	Late   bool     `json:"late"` // late-era layout (everything active) instead of a random compressed layout
	// SnapWithheld: the layout is drawn so that a snapshot height S lies in [2.0, 2.0.2); nobody writes OPR
	// or SPR records in block S (1) or in blocks S-1 and S (2): the block must still be applied.
	SnapWithheld int `json:"snap_withheld"`
}

func init() {
	registry["C08"] = checkC08
	orch.Register("c08.run", c08Run)
}

type ringLog struct {
	mu  sync.Mutex
	buf bytes.Buffer
}

func (r *ringLog) Write(p []byte) (int, error) {
	r.mu.Lock()
	defer r.mu.Unlock()
	if r.buf.Len() > 1<<20 {
		r.buf.Reset()
	}
	return r.buf.Write(p)
}

func (r *ringLog) LastError() string {
	r.mu.Lock()
	defer r.mu.Unlock()
	lines := strings.Split(strings.TrimSpace(r.buf.String()), "\n")
	for i := len(lines) - 1; i >= 0; i-- {
		if strings.Contains(lines[i], "failed to sync height") || strings.Contains(lines[i], "unable to") {
			return lines[i]
		}
	}
	if len(lines) > 0 {
		return lines[len(lines)-1]
	}
	return ""
}

var reErr = regexp.MustCompile(`error="([^"]*)"`)
var reHex = regexp.MustCompile(`[0-9a-f]{16,}`)
var reNum = regexp.MustCompile(`[0-9]+`)

// normalizeErr turns a daemon error message into a stable class.
func normalizeErr(line string) string {
	m := reErr.FindStringSubmatch(line)
	s := line
	if m != nil {
		s = m[1]
	}
	s = reHex.ReplaceAllString(s, "H")
	s = reNum.ReplaceAllString(s, "N")
	if len(s) > 120 {
		s = s[:120]
	}
	return s
}

func c08Run(j *orch.Job, r *orch.Result) error {
	var p c08Params
	json.Unmarshal(j.Params, &p)
	rng := rand.New(rand.NewSource(p.Seed))
	var e forge.Eras
	if p.Late {
		e = LateEras(1070)
	} else {
		e = RandomEras(rng, true)
	}
	withheldAt := uint32(0)
	if p.SnapWithheld > 0 {
		// the SECOND snapshot height from 2.0 on (the first one that has a previous snapshot to compare
		// with) must lie before 2.0.2: stretch that era
		e = RandomEras(rng, true)
		const d = 300
		e.V202 += d
		e.OneWaySmall += d
		e.V204 += d
		e.V204Burn += d
		e.PIP10 += d
		withheldAt = ((e.V20+143)/144)*144 + 144
		if withheldAt+1 >= e.V202 || withheldAt+3 > e.Pegnet+uint32(p.Blocks) {
			return fmt.Errorf("era layout does not put the second snapshot height (%d) before 2.0.2 (%d) within %d blocks", withheldAt, e.V202, p.Blocks)
		}
	}
	mo := gen.DefaultMixedOpts()
	mo.TxPerBlock = 4
	m := gen.NewMixed(e, p.Seed, mo, 12)
	setAvg(12)
	if withheldAt > 0 {
		m.ForceGraded[withheldAt-2] = true
		m.ForceGraded[withheldAt-1] = true
		m.ForceGraded[withheldAt+1] = true
	}
	hx := gen.NewHostile(m, p.Seed)
	kinds := p.Kinds
	if len(kinds) == 0 {
		kinds = gen.HostileKinds
	}
	logbuf := &ringLog{}
	n, err := harness.StartNode(harness.NodeConfig{DBPath: filepath.Join(j.Dir, "db"), LogTo: io.MultiWriter(logbuf, os.Stderr), LogLevel: log.ErrorLevel}, m.W.Chain)
	if err != nil {
		return err
	}
	defer n.Stop()
	n.Run()
	progress, _ := os.Create(filepath.Join(j.Dir, "progress.txt"))
	defer progress.Close()
	start := e.Pegnet + 1
	upto := e.Pegnet + uint32(p.Blocks)
	order := rng.Perm(len(kinds))
	ki := 0
	var recent []string
	recentKind, recentDesc, recentH := "none", "", uint32(0)
	for h := start; h <= upto; h++ {
		v, err := gen.ReadView(n.RO, h)
		if err != nil {
			return err
		}
		prevW := append([]string{}, m.W.PrevWinners...)
		clean := m.Next(v)
		spec := clean
		spec.OPR = append([]forge.Entry{}, clean.OPR...)
		spec.SPR = append([]forge.Entry{}, clean.SPR...)
		spec.Tx = append([]forge.Entry{}, clean.Tx...)
		kind := kinds[order[ki%len(order)]]
		ki++
		var desc string
		if withheldAt > 0 && (h == withheldAt || (p.SnapWithheld == 2 && h+1 == withheldAt)) {
			kind = "records-withheld-at-snapshot"
			spec.OPR, spec.SPR = nil, nil
			desc = fmt.Sprintf("no OPR and no SPR record in block %d (snapshot height %d lies between 2.0 and 2.0.2)", h, withheldAt)
			r.Count("pre202_snapshot_blocks_without_records", 1)
		} else {
			desc = hx.Apply(kind, v, &spec)
		}
		// the SPR chain only matters from 2.0 on, but third parties can write to it at any time
		if desc == "" {
			kind = "none"
		}
		fmt.Fprintf(progress, "height=%d kind=%s desc=%s opr=%d spr=%d tx=%d\n", h, kind, desc, len(spec.OPR), len(spec.SPR), len(spec.Tx))
		progress.Sync()
		m.W.Commit(spec)
		hx.Remember(h, clean.Tx)
		r.Count("blocks", 1)
		if kind != "none" {
			r.Count("hostile_blocks", 1)
			r.Seen("kinds", kind)
			r.Seen("kind_era", fmt.Sprintf("%s@v%d", kind, e.OPRVersion(h)))
			r.Count("hostile_entries", int64(len(spec.OPR)+len(spec.SPR)+len(spec.Tx)-len(clean.OPR)-len(clean.SPR)-len(clean.Tx)))
		}
		if kind != "none" {
			recent = append(recent, fmt.Sprintf("%s@%d", kind, h))
			recentKind, recentDesc = kind, desc
			recentH = h
		}
		err = n.WaitSynced(h, harness.WaitOpts{MaxAttempts: 3})
		if err != nil {
			// entries take effect up to a few blocks after they were posted (held conversions): attribute to the most recent hostile block
			ak, ad := kind, desc
			if ak == "none" && h-recentH <= 3 {
				ak, ad = recentKind, fmt.Sprintf("%s (posted at %d)", recentDesc, recentH)
			}
			c := map[string]interface{}{"seed": p.Seed, "height": h, "kind": ak, "desc": ad, "eras": e, "daemon_error": logbuf.LastError(), "recent_hostile_blocks": lastN(recent, 4)}
			if errors.Is(err, harness.ErrWedged) {
				cls := normalizeErr(logbuf.LastError())
				r.Violate("C08", fmt.Sprintf("wedge kind=%s err=%s", ak, cls),
					fmt.Sprintf("block %d became unsyncable: directory block requested repeatedly without progress.\nhostile content: %s\nlast daemon error: %s", h, ad, logbuf.LastError()), c)
				// replace the block by its clean version and go on (the failed attempts were rolled back)
				m.W.PrevWinners = prevW
				m.W.Commit(clean)
				if err2 := n.WaitSynced(h, harness.WaitOpts{MaxAttempts: 4}); err2 != nil {
					// the poison is already in the committed state (e.g. a held batch): this chain is dead
					r.Count("chains_dead_after_wedge", 1)
					r.Info["stopped_at"] = h
					return nil
				}
				continue
			}
			if errors.Is(err, harness.ErrFatal) {
				r.Violate("C08", fmt.Sprintf("fatal kind=%s err=%s", ak, normalizeErr(logbuf.LastError())),
					fmt.Sprintf("daemon called log.Fatal while applying block %d.\nhostile content: %s\nlast daemon error: %s", h, ad, logbuf.LastError()), c)
				return nil
			}
			r.Inconclusive = append(r.Inconclusive, fmt.Sprintf("height %d kind %s: %v", h, kind, err))
			return nil
		}
		if kind != "none" && len(r.Samples) < 4 {
			r.Sample(map[string]interface{}{"height": h, "kind": kind, "desc": clipS(desc, 200), "entries": len(spec.OPR) + len(spec.SPR) + len(spec.Tx)})
		}
	}
	return nil
}

var rePanic = regexp.MustCompile(`(?m)^panic: (.*)$`)
var reFrame = regexp.MustCompile(`(?:/repo/|pegnetd/)((?:node|srv|fat|cmd)[^\s:]*\.go):(\d+)`)
var reFatal = regexp.MustCompile(`(?m)^fatal error: (.*)$`)

// crashSignature extracts a stable identity from a crashed child's stderr.
func crashSignature(stderr string) (string, string) {
	msg := ""
	// the panicking goroutine's stack is the first block after the panic line
	if i := strings.Index(stderr, "\npanic: "); i >= 0 || strings.HasPrefix(stderr, "panic: ") {
		if i < 0 {
			i = 0
		}
		blk := stderr[i:]
		if j := strings.Index(blk, "\n\ngoroutine "); j > 0 {
			if k := strings.Index(blk[j+2:], "\n\n"); k > 0 {
				blk = blk[:j+2+k]
			}
		}
		if !strings.Contains(blk, "github.com/pegnet/pegnetd/") && !strings.Contains(blk, "/repo/") && !strings.Contains(blk, "github.com/pegnet/pegnet@") {
			m := rePanic.FindStringSubmatch(stderr)
			return "lab-crash", "lab code panicked (not the daemon): " + m[1]
		}
	}
	if m := rePanic.FindStringSubmatch(stderr); m != nil {
		msg = "panic: " + m[1]
	} else if m := reFatal.FindStringSubmatch(stderr); m != nil {
		msg = "fatal error: " + m[1]
	} else if strings.Contains(stderr, "level=fatal") {
		msg = "log.Fatal"
	} else {
		msg = "exit"
	}
	frame := ""
	if m := reFrame.FindStringSubmatch(stderr); m != nil {
		frame = m[1]
	}
	cls := reNum.ReplaceAllString(reHex.ReplaceAllString(msg, "H"), "N")
	if len(cls) > 100 {
		cls = cls[:100]
	}
	return fmt.Sprintf("crash %s at %s", cls, frame), msg
}

func lastProgress(dir string) string {
	b, err := os.ReadFile(filepath.Join(dir, "progress.txt"))
	if err != nil {
		return ""
	}
	lines := strings.Split(strings.TrimSpace(string(b)), "\n")
	return lines[len(lines)-1]
}

func firstKind(progressLine string) string {
	if m := regexp.MustCompile(`kind=(\S+)`).FindStringSubmatch(progressLine); m != nil {
		return m[1]
	}
	return ""
}

func lastN(l []string, n int) []string {
	if len(l) > n {
		return l[len(l)-n:]
	}
	return l
}

func checkC08(c *Ctx) *orch.Outcome {
	o := c.NewOutcome("exploration")
	o.Rule = "one evaluation = one block containing hostile entries of one kind (plus normal traffic) applied by the real daemon on top of an adaptively forged ledger; the oracle is bounded progress: the block must commit within 3 attempts and the process must not die. " +
		"Non-trivial/distinct = (hostile kind, OPR era) combinations actually applied."
	o.Assumptions = []string{
		"healthy fake factomd and database (faults are C10)",
		"Factom-level malformations (bad Merkle roots, unparsable blocks) out of scope",
		"\"always terminates\" is checked as bounded progress: at most 3 requests of the same directory block",
		"shapes reproducing recorded legacy-era findings (bank-era batches mixing a PEG request with other transactions) run in a tagged scenario and are reported as KNOWN-FINDING",
		"two chains per run withhold every OPR/SPR record at a snapshot height between 2.0 and 2.0.2 (once in that block only, once also in the block before)",
		"the workloads of the rule checks (C03, C04, C07, C11-C16; with blocks applied twice and process restarts) are also run with bounded progress as the only oracle",
	}
	nJobs, blocks := 16, 130
	if c.Thorough() {
		nJobs, blocks = 64, 420
	}
	var jobs []orch.Job
	for i := 0; i < nJobs; i++ {
		seed := c.Seed*10000 + int64(i)
		p := c08Params{Seed: seed, Blocks: blocks, Late: i%4 == 3}
		if !c.Thorough() {
			// quick: short chains, alternate early eras (random layout, first 70 blocks ≈ up to V4) and late eras
			p.Late = i%2 == 1
		}
		pj, _ := json.Marshal(p)
		jobs = append(jobs, orch.Job{Kind: "c08.run", Name: fmt.Sprintf("c08-%d", seed), Seed: seed, Params: pj, Timeout: 1500})
	}
	// thorough: replay part of the hostile workload with the AddressSanitizer build (blobs of hostile size and
	// content cross the cgo boundary into SQLite's C code)
	nASan := 0
	if c.Thorough() {
		for i := 0; i < 6; i++ {
			seed := c.Seed*10000 + 5000 + int64(i)
			pj, _ := json.Marshal(c08Params{Seed: seed, Blocks: 160, Late: i%2 == 1})
			jobs = append(jobs, orch.Job{Kind: "c08.run", Name: fmt.Sprintf("c08-asan-%d", seed), Seed: seed, Params: pj, Timeout: 2400, ASan: true})
			nASan++
		}
	}
	// snapshot heights between 2.0 and 2.0.2 where nobody wrote a record
	for i := 1; i <= 2; i++ {
		seed := c.Seed*10000 + 8000 + int64(i)
		pj, _ := json.Marshal(c08Params{Seed: seed, Blocks: 400, SnapWithheld: i})
		jobs = append(jobs, orch.Job{Kind: "c08.run", Name: fmt.Sprintf("c08-snapshot-withheld-%d", i), Seed: seed, Params: pj, Timeout: 1500})
	}
	// tagged scenario: recorded findings
	for i, k := range gen.TaggedHostileKinds {
		// one chain per recorded shape (a wedge ends the chain, and attribution must be unambiguous)
		seed := c.Seed*10000 + 9000 + int64(i)
		pj, _ := json.Marshal(c08Params{Seed: seed, Blocks: 90, Kinds: []string{k}, Tagged: true})
		jobs = append(jobs, orch.Job{Kind: "c08.run", Name: fmt.Sprintf("c08-tagged-%s", k), Seed: seed, Params: pj, Timeout: 900})
	}
	// the workloads of the rule checks (C03, C07, C11-C16) as a liveness monitor: every era, valid and rule-breaking
	// traffic of every kind those checks generate, blocks applied twice, process restarts - here only bounded
	// progress is judged
	lv := [][]string{{"c03", "c16"}, {"c07", "gaps", "avg-unavailable", "ungraded-snapshot"}, {"c11"}, {"c12", "gaps", "ungraded-snapshot"},
		{"c13", "avg-unavailable", "c16"}, {"c14", "quiet", "small-ties", "whale-exit"}, {"c15", "quiet"}, {"busy", "c03", "c13"}}
	nlv := 1
	if c.Thorough() {
		nlv = 4
	}
	for k := 0; k < nlv; k++ {
		for i, fs := range lv {
			seed := c.Seed*10000 + 7000 + int64(k*len(lv)+i)
			f := append([]string{}, fs...)
			switch (i + k) % 3 {
			case 1:
				f = append(f, "retries")
			case 2:
				f = append(f, "restarts")
			}
			mp := modelParams{Seed: seed, Profile: "mixed", Late: (i+k)%4 == 3, Features: f, Liveness: true, AlignV20Dev: -1}
			if fs[0] == "c14" {
				mp.Upto = 144*3 + 20
			}
			pj, _ := json.Marshal(mp)
			jobs = append(jobs, orch.Job{Kind: "model.run", Name: fmt.Sprintf("c08-model-workload-%d", seed), Seed: seed, Params: pj, Timeout: 1500})
		}
	}
	rs := c.R.Run(jobs)
	o.Merge(rs)
	asanReports, asanBlocks := 0, int64(0)
	for i, r := range rs {
		if jobs[i].ASan {
			asanReports += r.ASanReports
			asanBlocks += r.Counters["blocks"]
			if r.ASanReports > 0 {
				o.Violations = append(o.Violations, orch.Violation{Property: "C08", Signature: "asan-report kind=" + firstKind(lastProgress(jobs[i].Dir)),
					Detail: "AddressSanitizer reported a memory error while the daemon applied hostile entries:\n" + clipS(r.Stderr, 3000), Case: map[string]interface{}{"job": jobs[i].Name, "last_block": lastProgress(jobs[i].Dir)}})
				continue
			}
		}
		if r.Crashed {
			sig, msg := crashSignature(r.Stderr)
			if sig == "lab-crash" {
				o.Inconclusive = append(o.Inconclusive, jobs[i].Name+": "+msg)
				continue
			}
			lp := lastProgress(jobs[i].Dir)
			kind := ""
			if m := regexp.MustCompile(`kind=(\S+)`).FindStringSubmatch(lp); m != nil {
				kind = m[1]
			}
			o.Violations = append(o.Violations, orch.Violation{Property: "C08", Signature: sig + " kind=" + kind,
				Detail: fmt.Sprintf("daemon process died while applying a block (%s)\nlast forged block: %s\nstderr: %s", msg, lp, clipS(r.Stderr, 1500)),
				Case:   map[string]interface{}{"job": jobs[i].Name, "seed": jobs[i].Seed, "last_block": lp}})
			// the blocks before the crash were still observed
			if b, err := os.ReadFile(filepath.Join(jobs[i].Dir, "progress.txt")); err == nil {
				o.Evaluations += int64(bytes.Count(b, []byte("\n")))
			}
		}
	}
	o.Evaluations += orch.SumCounter(rs, "hostile_blocks")
	o.Nontrivial = int64(len(orch.UnionDistinct(rs, "kind_era")))
	o.Extra["blocks_synced"] = orch.SumCounter(rs, "blocks")
	o.Extra["blocks_of_rule_check_workloads_applied"] = orch.SumCounter(rs, "blocks_applied")
	o.Extra["hostile_entries"] = orch.SumCounter(rs, "hostile_entries")
	o.Extra["pre202_snapshot_blocks_without_records"] = orch.SumCounter(rs, "pre202_snapshot_blocks_without_records")
	o.Extra["kinds_applied"] = orch.UnionDistinct(rs, "kinds")
	o.Extra["kind_era_combinations"] = len(orch.UnionDistinct(rs, "kind_era"))
	if nASan > 0 {
		o.Extra["asan_jobs"] = nASan
		o.Extra["asan_blocks_synced"] = asanBlocks
		o.Extra["asan_reports"] = asanReports
	}
	o.MinNontrivial = 20
	return o
}
