package checks

import (
	"fmt"
	"os"
	"time"

	"verif/lab/forge"
	"verif/lab/gen"
	"verif/lab/harness"
)

// StdEras is the default compressed era layout: every activation in mainnet order,
// a few dozen blocks apart, aligned so that snapshot heights fall in every 2.x era.
func StdEras(base uint32) forge.Eras {
	return forge.ErasCompressed(base, [16]uint32{6, 6, 8, 8, 8, 14, 20, 78, 40, 30, 20, 20})
}

// Smoke drives the mixed workload across all eras once and prints what happened.
func Smoke(args []string) int {
	dir, _ := os.MkdirTemp("", "verif-smoke-")
	defer os.RemoveAll(dir)
	e := StdEras(1000)
	fmt.Printf("eras: %+v\n", e)
	g := gen.NewMixed(e, 1, gen.DefaultMixedOpts(), 12)
	n, err := harness.StartNode(harness.NodeConfig{DBPath: dir + "/db", Wrap: true}, g.W.Chain)
	if err != nil {
		fmt.Println("start:", err)
		return 1
	}
	tr := n.StartTrace(false, nil)
	n.Run()
	t0 := time.Now()
	upto := e.PIP10 + 40
	stmts := 0
	err = gen.Drive(n, g, g.W, upto, harness.WaitOpts{}, func(h uint32, b *forge.Block) error {
		stmts += len(tr.Take())
		return nil
	})
	fmt.Println("drive:", err, "blocks", upto-e.Pegnet, "in", time.Since(t0), "stmts", stmts, "reqs", n.Fake.TotalRequests())
	d, derr := harness.TakeDump(n.RO, harness.DumpOptions{})
	fmt.Println("dump:", derr, d.Total)
	rows, _ := n.RO.Query("select executed<0, executed=0, count(*) from pn_history_txbatch group by 1,2")
	for rows.Next() {
		var a, b, c int
		rows.Scan(&a, &b, &c)
		fmt.Println("rejected", a, "pending", b, "count", c)
	}
	rows, _ = n.RO.Query("select executed, count(*) from pn_history_txbatch where executed<0 group by 1")
	for rows.Next() {
		var a, c int
		rows.Scan(&a, &c)
		fmt.Println("code", a, "count", c)
	}
	var nr, nb int
	n.RO.QueryRow("select count(distinct height) from pn_rate").Scan(&nr)
	n.RO.QueryRow("select count(*) from pn_bank").Scan(&nb)
	fmt.Println("rated heights", nr, "bank rows", nb)
	n.Stop()
	if err != nil {
		return 1
	}
	return 0
}
