package checks

import (
	"database/sql"
	"encoding/hex"
	"encoding/json"
	"fmt"
	"math/big"
	"net"
	"sort"
	"strings"
	"time"

	"github.com/Factom-Asset-Tokens/factom"
	"github.com/pegnet/pegnetd/config"
	"github.com/pegnet/pegnetd/fat/fat2"
	"github.com/pegnet/pegnetd/srv"
	"github.com/spf13/viper"
	"verif/lab/forge"
	"verif/lab/harness"
	"verif/lab/orch"
	"verif/lab/rules"
)

// C17 History and status tell the truth. Three oracles on top of a monitored run that produces
// every verdict code:
//  (a) per batch: recorded status == the rules' verdict, recorded amounts == balance effects
//      (done block by block by the monitor);
//  (b) folding every history row from genesis, plus the scheduled adjustments that by design have
//      no rows, must reproduce pn_addresses for every address and asset;
//  (c) paging get-transactions through the real JSON-RPC server by address / entry hash / height /
//      txid, ascending and descending, following nextoffset, must return each recorded action
//      exactly once, and `count` must equal the number returned.

func init() {
	registry["C17"] = func(c *Ctx) *orch.Outcome {
		return runModelCheck(c, modelSpec{Level: "exploration",
			Rule: "one evaluation = one batch status / recorded amount compared with the reference verdict at the block where it is decided, plus one whole-history fold per chain (all history rows + the row-less scheduled adjustments must reproduce every balance), plus one paged API enumeration per (key kind, key, order). Distinct non-trivial = (kind, verdict, era) outcome classes + API keys paged with more than one page + folds compared.",
			Assume: []string{"a batch that is dropped as unconvertible keeps status 0 forever: recorded finding, reported by signature",
				"API paging runs against the real srv.APIServer on a loopback port after the chain is synced"},
			Profiles: func(c *Ctx) []modelParams {
				ps := featProfiles(c, 4, 16, 3, "c03", "c13", "c16", "c17-final")
				ps = append(ps, modelParams{Seed: c.Seed*1000 + 700, Profile: "mixed", Features: []string{"quiet", "overflow-conversion"}, Upto: 0})
				// history writes fail once (the block is rolled back and applied again): what the history says must
				// still be what happened - also for the payout rows of snapshot blocks
				nf := 1
				if c.Thorough() {
					nf = 4
				}
				for k := 0; k < nf; k++ {
					ps = append(ps, modelParams{Seed: c.Seed*1000 + 720 + int64(k), Profile: "mixed", Features: []string{"c14", "quiet", "c03", "retries", "history-faults", "c17-final"}, Upto: 144*3 + 20})
				}
				return ps
			},
			NonTrivial: func(rs []*orch.Result) (int64, map[string]interface{}) {
				k := orch.UnionDistinct(rs, "outcome_classes")
				ex := sumCounters(rs, "batch_outcomes_checked", "conversion_amounts_checked", "history_folds", "history_rows_folded", "fold_addresses_compared", "api_keys_paged", "api_multi_page_keys", "api_actions_returned", "api_action_contents_compared", "api_requests", "peg_requests_allotted_zero_with_refund")
				ex["outcome_classes"] = len(k)
				return int64(len(k)) + orch.SumCounter(rs, "api_multi_page_keys") + orch.SumCounter(rs, "history_folds"), ex
			}, Min: 20})
	}
}

type histRow struct {
	hash      []byte
	height    uint32
	executed  int64
	idx       int
	action    int
	from      factom.FAAddress
	fromAsset string
	fromAmt   int64
	toAsset   string
	toAmt     int64
	outputs   []byte
}

// historyFold replays the history tables into balances.
func historyFold(db *sql.DB, e forge.Eras, r *orch.Result, seed int64) error {
	rows, err := db.Query(`SELECT b.entry_hash, b.height, b.executed, t.tx_index, t.action_type, t.from_address, t.from_asset, t.from_amount, t.to_asset, t.to_amount, t.outputs
		FROM pn_history_txbatch b JOIN pn_history_transaction t ON t.entry_hash = b.entry_hash`)
	if err != nil {
		return err
	}
	byHeight := map[uint32][]histRow{}
	for rows.Next() {
		var h histRow
		var from []byte
		if err := rows.Scan(&h.hash, &h.height, &h.executed, &h.idx, &h.action, &from, &h.fromAsset, &h.fromAmt, &h.toAsset, &h.toAmt, &h.outputs); err != nil {
			rows.Close()
			return err
		}
		copy(h.from[:], from)
		if h.executed > 0 {
			byHeight[uint32(h.executed)] = append(byHeight[uint32(h.executed)], h)
		}
		r.Count("history_rows_folded", 1)
	}
	rows.Close()
	tip, err := harness.ReadSynced(db)
	if err != nil {
		return err
	}
	type key struct {
		a factom.FAAddress
		t fat2.PTicker
	}
	bal := map[key]*big.Int{}
	add := func(a factom.FAAddress, t fat2.PTicker, v *big.Int) {
		k := key{a, t}
		if bal[k] == nil {
			bal[k] = new(big.Int)
		}
		bal[k].Add(bal[k], v)
	}
	zero := func(a factom.FAAddress, only []fat2.PTicker) {
		for k := range bal {
			if k.a != a {
				continue
			}
			if only != nil {
				ok := false
				for _, t := range only {
					if t == k.t {
						ok = true
					}
				}
				if !ok {
					continue
				}
			}
			bal[k] = new(big.Int)
		}
	}
	tick := func(s string) fat2.PTicker {
		if s == "FCT" {
			return fat2.PTickerInvalid
		}
		return fat2.StringToTicker(s)
	}
	burnNew, _ := factom.NewFAAddress(rules.GlobalBurnAddress)
	mint, _ := factom.NewFAAddress(rules.GlobalMintAddress)
	for h := e.Pegnet + 1; h <= tip; h++ {
		// scheduled adjustments that have no history rows
		if h == e.V202 {
			zero(burnNew, nil)
		}
		if h == e.V204 {
			for _, mt := range rules.MintTable {
				add(mint, mt.T, new(big.Int).SetUint64(mt.N*1e8))
			}
		}
		if h == e.V204Burn {
			var ts []fat2.PTicker
			for _, mt := range rules.MintTable {
				ts = append(ts, mt.T)
			}
			zero(mint, ts)
		}
		for _, row := range byHeight[h] {
			switch row.action {
			case 1: // transfer
				add(row.from, tick(row.fromAsset), big.NewInt(-row.fromAmt))
				var outs []struct {
					Address factom.FAAddress `json:"address"`
					Amount  int64            `json:"amount"`
				}
				if len(row.outputs) > 0 {
					if err := json.Unmarshal(row.outputs, &outs); err != nil {
						return fmt.Errorf("outputs of %x: %v", row.hash, err)
					}
				}
				for _, o := range outs {
					if (h >= e.V202 && o.Address == burnNew) || (h < e.V202 && o.Address == (factom.FAAddress{})) {
						continue // burn-address outputs are destroyed
					}
					add(o.Address, tick(row.fromAsset), big.NewInt(o.Amount))
				}
			case 2: // conversion
				add(row.from, tick(row.fromAsset), big.NewInt(-row.fromAmt))
				add(row.from, tick(row.toAsset), big.NewInt(row.toAmt))
				if len(row.outputs) > 0 && string(row.outputs) != "" {
					var outs []struct {
						Address factom.FAAddress `json:"address"`
						Amount  int64            `json:"amount"`
					}
					if json.Unmarshal(row.outputs, &outs) == nil {
						for _, o := range outs {
							add(o.Address, tick(row.fromAsset), big.NewInt(o.Amount)) // refund of a PEG request
						}
					}
				}
			case 3: // coinbase (rewards, payouts; negative for the recorded zeroing of the old burn address)
				add(row.from, tick(row.toAsset), big.NewInt(row.toAmt))
			case 4: // FCT burn
				add(row.from, tick(row.toAsset), big.NewInt(row.toAmt))
			}
		}
	}
	obs, _, err := harness.ReadBalances(db, "pn_addresses")
	if err != nil {
		return err
	}
	r.Count("history_folds", 1)
	bad := 0
	seen := map[key]bool{}
	check := func(a factom.FAAddress, t fat2.PTicker) {
		k := key{a, t}
		if seen[k] {
			return
		}
		seen[k] = true
		want := new(big.Int)
		if bal[k] != nil {
			want = bal[k]
		}
		got := new(big.Int).SetUint64(obs.Get(a, t))
		r.Count("fold_addresses_compared", 1)
		if want.Cmp(got) != 0 {
			bad++
			if bad <= 4 {
				r.Violate("C17", "history-fold-mismatch asset-class="+assetClass(t),
					fmt.Sprintf("replaying all recorded history rows (and the row-less scheduled adjustments) gives %s %s = %s, the ledger holds %s", a, t, want, got),
					map[string]interface{}{"seed": seed, "address": a.String(), "asset": t.String(), "folded": want.String(), "ledger": got.String(), "eras": e})
			}
		}
	}
	for a, m := range obs {
		for t := range m {
			check(a, t)
		}
	}
	for k := range bal {
		if k.t != fat2.PTickerInvalid {
			check(k.a, k.t)
		}
	}
	return nil
}

// apiPaging enumerates get-transactions page by page and compares with the tables.
func apiPaging(n *harness.Node, e forge.Eras, r *orch.Result, seed int64) error {
	port := freePort()
	conf := viper.New()
	conf.Set(config.APIListen, fmt.Sprintf("127.0.0.1:%d", port))
	stop := make(chan struct{})
	done := srv.NewAPIServer(conf, n.P).Start(stop)
	_, _ = stop, done // left running until the process exits (srv.Shutdown(nil) can panic with live connections)
	for i := 0; i < 200; i++ {
		if cn, err := net.Dial("tcp", fmt.Sprintf("127.0.0.1:%d", port)); err == nil {
			cn.Close()
			break
		}
		time.Sleep(5 * time.Millisecond)
	}
	db := n.RO
	type keyCase struct {
		kind   string
		params map[string]interface{}
		expect map[string]bool
	}
	var cases []keyCase
	expectQuery := func(q string, arg interface{}) map[string]bool {
		out := map[string]bool{}
		rows, err := db.Query(q, arg)
		if err != nil {
			return out
		}
		defer rows.Close()
		for rows.Next() {
			var h []byte
			var idx int
			rows.Scan(&h, &idx)
			out[fmt.Sprintf("%d-%x", idx, h)] = true
		}
		return out
	}
	// addresses: a spread of action counts (0, 1, around the page size, many)
	rows, err := db.Query("SELECT address, COUNT(*) c FROM pn_history_lookup GROUP BY address ORDER BY c")
	if err != nil {
		return err
	}
	type ac struct {
		a []byte
		c int
	}
	var all []ac
	for rows.Next() {
		var x ac
		rows.Scan(&x.a, &x.c)
		all = append(all, x)
	}
	rows.Close()
	pickIdx := map[int]bool{}
	for _, want := range []int{1, 2, 49, 50, 51, 99, 100, 101, 120, 1 << 30} {
		best := -1
		for i, x := range all {
			if best < 0 || abs(x.c-want) < abs(all[best].c-want) {
				best = i
			}
		}
		if best >= 0 {
			pickIdx[best] = true
		}
	}
	for i := 0; i < len(all); i += 1 + len(all)/12 {
		pickIdx[i] = true
	}
	// what each address is involved in, derived from the action rows themselves (sender, transfer
	// outputs, refund outputs) — NOT from the lookup table the API reads
	involved := map[factom.FAAddress]map[string]bool{}
	note := func(a factom.FAAddress, k string) {
		if involved[a] == nil {
			involved[a] = map[string]bool{}
		}
		involved[a][k] = true
	}
	// what every action says, straight from the tables: each action the API returns, on whatever page of
	// whatever listing, must say exactly this
	type actionRow struct {
		height, executed, fromAmt, toAmt int64
		fromAsset, toAsset, outputs     string
	}
	actionOf := map[string]actionRow{}
	arows, err := db.Query(`SELECT t.entry_hash, t.tx_index, b.height, b.executed, t.from_asset, t.from_amount, t.to_asset, t.to_amount, t.outputs
		FROM pn_history_transaction t JOIN pn_history_txbatch b ON b.entry_hash = t.entry_hash`)
	if err != nil {
		return err
	}
	for arows.Next() {
		var h, outs []byte
		var idx int
		var a actionRow
		arows.Scan(&h, &idx, &a.height, &a.executed, &a.fromAsset, &a.fromAmt, &a.toAsset, &a.toAmt, &outs)
		a.outputs = canonOutputs(outs)
		actionOf[fmt.Sprintf("%d-%x", idx, h)] = a
	}
	arows.Close()
	trows, err := db.Query("SELECT entry_hash, tx_index, from_address, outputs FROM pn_history_transaction")
	if err != nil {
		return err
	}
	for trows.Next() {
		var h, from, outs []byte
		var idx int
		trows.Scan(&h, &idx, &from, &outs)
		k := fmt.Sprintf("%d-%x", idx, h)
		var fa factom.FAAddress
		copy(fa[:], from)
		note(fa, k)
		if len(outs) > 2 {
			var os []struct {
				Address factom.FAAddress `json:"address"`
			}
			if json.Unmarshal(outs, &os) == nil {
				for _, o := range os {
					note(o.Address, k)
				}
			}
		}
	}
	trows.Close()
	// the sample of addresses is still drawn by their number of lookup rows (page-size boundaries)…
	for i := range pickIdx {
		var fa factom.FAAddress
		copy(fa[:], all[i].a)
		exp := involved[fa]
		if exp == nil {
			exp = map[string]bool{}
		}
		cases = append(cases, keyCase{"address", map[string]interface{}{"address": fa.String()}, exp})
	}
	// …plus addresses that receive several outputs of one batch, and the busiest receivers
	type cnt struct {
		a factom.FAAddress
		n int
	}
	var byN []cnt
	for a, m := range involved {
		byN = append(byN, cnt{a, len(m)})
	}
	sort.Slice(byN, func(i, j int) bool {
		if byN[i].n != byN[j].n {
			return byN[i].n > byN[j].n
		}
		return string(byN[i].a[:]) < string(byN[j].a[:])
	})
	for i := 0; i < len(byN) && i < 60; i++ {
		cases = append(cases, keyCase{"address", map[string]interface{}{"address": byN[i].a.String()}, involved[byN[i].a]})
	}
	nobody := forge.NewKey("c17-nobody").FA()
	cases = append(cases, keyCase{"address", map[string]interface{}{"address": nobody.String()}, map[string]bool{}})
	// heights
	hrows, _ := db.Query("SELECT height, COUNT(*) c FROM pn_history_txbatch b JOIN pn_history_transaction t ON t.entry_hash = b.entry_hash GROUP BY height ORDER BY c DESC")
	var hs []uint32
	for hrows.Next() {
		var h uint32
		var c int
		hrows.Scan(&h, &c)
		hs = append(hs, h)
	}
	hrows.Close()
	for i := 0; i < len(hs); i += 1 + len(hs)/10 {
		cases = append(cases, keyCase{"height", map[string]interface{}{"height": hs[i]}, expectQuery("SELECT t.entry_hash, t.tx_index FROM pn_history_txbatch b JOIN pn_history_transaction t ON t.entry_hash = b.entry_hash WHERE b.height = ?", hs[i])})
	}
	// entry hashes (batches with several transactions first) and txids
	erows, _ := db.Query("SELECT entry_hash, COUNT(*) c FROM pn_history_transaction GROUP BY entry_hash ORDER BY c DESC LIMIT 400")
	var ehs [][]byte
	for erows.Next() {
		var h []byte
		var c int
		erows.Scan(&h, &c)
		ehs = append(ehs, h)
	}
	erows.Close()
	for i := 0; i < len(ehs); i += 1 + len(ehs)/12 {
		hh := ehs[i]
		cases = append(cases, keyCase{"entryhash", map[string]interface{}{"entryhash": hex.EncodeToString(hh)}, expectQuery("SELECT entry_hash, tx_index FROM pn_history_transaction WHERE entry_hash = ?", hh)})
		var ti int
		if db.QueryRow("SELECT MAX(tx_index) FROM pn_history_transaction WHERE entry_hash = ?", hh).Scan(&ti) == nil {
			cases = append(cases, keyCase{"txid", map[string]interface{}{"txid": fmt.Sprintf("%d-%x", ti, hh)}, map[string]bool{fmt.Sprintf("%d-%x", ti, hh): true}})
		}
	}
	contentProblems := 0
	for _, kc := range cases {
		for _, desc := range []bool{false, true} {
			got := map[string]int{}
			total, pages := 0, 0
			offset := 0
			count := -1
			method := "get-transactions"
			if kc.kind == "txid" {
				method = "get-transaction"
			}
			for {
				pm := map[string]interface{}{}
				for k, v := range kc.params {
					pm[k] = v
				}
				pm["offset"] = offset
				if desc {
					pm["desc"] = true
				}
				raw, err := callAPI(port, apiQuery{Method: method, Params: pm})
				r.Count("api_requests", 1)
				if err != nil {
					return err
				}
				var env struct {
					Result *struct {
						Actions []struct {
							Hash       string          `json:"hash"`
							TxIndex    int             `json:"txindex"`
							Height     int64           `json:"height"`
							Executed   int64           `json:"executed"`
							FromAsset  string          `json:"fromasset"`
							FromAmount int64           `json:"fromamount"`
							ToAsset    string          `json:"toasset"`
							ToAmount   int64           `json:"toamount"`
							Outputs    json.RawMessage `json:"outputs"`
						} `json:"actions"`
						Count      int `json:"count"`
						NextOffset int `json:"nextoffset"`
					} `json:"result"`
					Error json.RawMessage `json:"error"`
				}
				json.Unmarshal(raw, &env)
				if env.Result == nil {
					break // "not found" for empty sets
				}
				pages++
				if count < 0 {
					count = env.Result.Count
				}
				for _, a := range env.Result.Actions {
					k := fmt.Sprintf("%d-%s", a.TxIndex, a.Hash)
					got[k]++
					total++
					if want, ok := actionOf[k]; ok {
						r.Count("api_action_contents_compared", 1)
						have := actionRow{a.Height, a.Executed, a.FromAmount, a.ToAmount, a.FromAsset, a.ToAsset, canonOutputs(a.Outputs)}
						if have != want && contentProblems < 4 {
							contentProblems++
							r.Violate("C17", fmt.Sprintf("api-action-content kind=%s", kc.kind),
								fmt.Sprintf("get-transactions %v (desc=%v, offset %d) returns action %s as %+v, the tables record %+v", kc.params, desc, offset, clipS(k, 30), have, want),
								map[string]interface{}{"seed": seed, "kind": kc.kind, "params": kc.params, "desc": desc, "offset": offset, "action": k})
						}
					}
				}
				if env.Result.NextOffset == 0 || pages > 200 {
					break
				}
				offset = env.Result.NextOffset
			}
			r.Count("api_keys_paged", 1)
			r.Count("api_actions_returned", int64(total))
			if pages > 1 {
				r.Count("api_multi_page_keys", 1)
			}
			pj, _ := json.Marshal(kc.params)
			cd := map[string]interface{}{"seed": seed, "kind": kc.kind, "params": kc.params, "desc": desc, "pages": pages, "count_field": count, "returned": total, "expected": len(kc.expect)}
			var problems []string
			for k, c := range got {
				if c > 1 {
					problems = append(problems, fmt.Sprintf("%s returned %d times", clipS(k, 24), c))
				}
				if !kc.expect[k] {
					problems = append(problems, fmt.Sprintf("%s not a recorded action of this key", clipS(k, 24)))
				}
			}
			for k := range kc.expect {
				if got[k] == 0 {
					problems = append(problems, fmt.Sprintf("%s never returned", clipS(k, 24)))
				}
			}
			if count >= 0 && count != total {
				problems = append(problems, fmt.Sprintf("count field %d, %d actions returned", count, total))
			}
			if len(problems) > 0 {
				sort.Strings(problems)
				cls := "missing-or-duplicate"
				if strings.Contains(strings.Join(problems, " "), "count field") && len(problems) == 1 {
					cls = "count-mismatch"
				}
				r.Violate("C17", fmt.Sprintf("api-paging kind=%s class=%s", kc.kind, cls),
					fmt.Sprintf("get-transactions %s (desc=%v) over %d pages: %s", pj, desc, pages, clipS(strings.Join(problems, "; "), 700)), cd)
			}
			if pages > 1 && len(r.Samples) < 6 {
				r.Sample(cd)
			}
		}
	}
	return nil
}

// canonOutputs renders an outputs list (as stored, or as the API returns it) as "address:amount,…" in the given order.
func canonOutputs(raw []byte) string {
	if len(raw) == 0 || string(raw) == "null" {
		return ""
	}
	var outs []struct {
		Address string `json:"address"`
		Amount  int64  `json:"amount"`
	}
	if err := json.Unmarshal(raw, &outs); err != nil {
		return "unparsable:" + string(raw)
	}
	var parts []string
	for _, o := range outs {
		parts = append(parts, fmt.Sprintf("%s:%d", o.Address, o.Amount))
	}
	return strings.Join(parts, ",")
}

func abs(x int) int {
	if x < 0 {
		return -x
	}
	return x
}
