package checks

import (
	"sync/atomic"
	"os"
	"encoding/json"
	"fmt"
	"math/rand"
	"net"
	"path/filepath"
	"strings"
	"sync"
	"time"

	"github.com/pegnet/pegnetd/config"
	"github.com/pegnet/pegnetd/srv"
	"github.com/spf13/viper"

	"verif/lab/forge"
	"verif/lab/gen"
	"verif/lab/harness"
	"verif/lab/orch"
	"verif/lab/vdriver"
)

// C01 Deterministic replay — metamorphic, multi-process: independent fresh processes replay the
// same forged chain (built to contain exact ties) and must produce byte-identical canonical dumps.

type c01ForgeParams struct {
	Dir  string `json:"dir"`
	Seed int64  `json:"seed"`
}

type c01ReplicaParams struct {
	Dir      string `json:"dir"`
	Replica  int    `json:"replica"`
	DelayUS  int    `json:"delay_us"`
	RowsFile string `json:"rows_file"`
	API      bool   `json:"api"` // this replica answers read-only API requests between blocks
	// RateFault: one read of recorded rates (outside the block's transaction) fails in the PIP-10 era. By design that
	// ends the daemon process; a second job (Resume) continues on the same database.
	RateFault bool   `json:"rate_fault"`
	Resume    bool   `json:"resume"`
	DBPath    string `json:"db_path"`
}

func init() {
	registry["C01"] = checkC01
	orch.Register("c01.forge", c01Forge)
	orch.Register("c01.replica", c01Replica)
}

func c01Eras(seed int64) forge.Eras {
	return RandomEras(rand.New(rand.NewSource(seed*7919+1)), true)
}

func c01Forge(j *orch.Job, r *orch.Result) error {
	var p c01ForgeParams
	json.Unmarshal(j.Params, &p)
	e := c01Eras(p.Seed)
	upto := SecondSnapshot(e) + 3
	if upto < e.PIP10+34 {
		upto = e.PIP10 + 34
	}
	_, meta, final, err := ForgeChain(ForgeOpts{Profile: "ties", Seed: p.Seed, Eras: e, Upto: upto, ShortAvg: 12, Ties: false, Dir: p.Dir, KeepDB: true,
		Customize: func(m *gen.Mixed) {
			ts := gen.AddTies(m, p.Seed)
			// the whale leaves before 2.0 so that the tied group is the TOP stake (the dust recipient is decided among ties)
			featWhaleExit(m, ts, &modelParams{Seed: p.Seed})
			// an asset whose average is unavailable for a while after PIP-10, with conversions into it waiting:
			// what the daemon keeps in memory between two blocks (rolling averages) then decides ledger entries
			featAvgUnavailable(m, ts, &modelParams{Seed: p.Seed})
			// more than 100 PEG holders with a tie across rank 100 (created by one transfer), some of them staking
			featRank100Tie(m, ts, &modelParams{Seed: p.Seed})
		}})
	if err != nil {
		return err
	}
	// measure the ties that actually arose, from the reference database
	db, err := harness.OpenRO(filepath.Join(p.Dir, "refdb.v4"))
	if err != nil {
		return err
	}
	defer db.Close()
	// staking payouts: rows of the mock batch %064d(height) with equal to_amount
	rows, err := db.Query(`SELECT b.height, t.to_amount, COUNT(*) FROM pn_history_transaction t JOIN pn_history_txbatch b ON b.entry_hash = t.entry_hash
		WHERE b.height % 144 = 0 AND t.action_type = 3 AND length(t.entry_hash) = 32 AND hex(substr(t.entry_hash,1,16)) = '00000000000000000000000000000000'
		GROUP BY b.height, t.to_amount HAVING COUNT(*) > 1`)
	if err != nil {
		return err
	}
	tieGroups := 0
	for rows.Next() {
		var h, amt, n int64
		rows.Scan(&h, &amt, &n)
		tieGroups++
		r.Sample(map[string]interface{}{"chain_seed": p.Seed, "snapshot_height": h, "tied_holders": n, "payout_each": amt})
	}
	rows.Close()
	var paidSnapshots, stakers int64
	db.QueryRow(`SELECT COUNT(DISTINCT b.height), COUNT(*) FROM pn_history_transaction t JOIN pn_history_txbatch b ON b.entry_hash = t.entry_hash
		WHERE b.height % 144 = 0 AND t.action_type = 3 AND hex(substr(t.entry_hash,1,16)) = '00000000000000000000000000000000'`).Scan(&paidSnapshots, &stakers)
	var bankOver int64
	db.QueryRow(`SELECT COUNT(*) FROM pn_bank WHERE total_requested > bank_amount`).Scan(&bankOver)
	var bigBlocks int64
	db.QueryRow(`SELECT COUNT(*) FROM (SELECT height FROM pn_history_txbatch WHERE blockorder > 100 GROUP BY height)`).Scan(&bigBlocks)
	// ties for the TOP stake: at a paying snapshot at least two holders within a few units of the largest payout
	trows, err := db.Query(`SELECT b.height, MAX(t.to_amount), COUNT(*) FROM pn_history_transaction t JOIN pn_history_txbatch b ON b.entry_hash = t.entry_hash
		WHERE b.height % 144 = 0 AND t.action_type = 3 AND hex(substr(t.entry_hash,1,16)) = '00000000000000000000000000000000' GROUP BY b.height`)
	if err == nil {
		type hm struct{ h, mx, n int64 }
		var l []hm
		for trows.Next() {
			var x hm
			trows.Scan(&x.h, &x.mx, &x.n)
			l = append(l, x)
		}
		trows.Close()
		for _, x := range l {
			var k int64
			db.QueryRow(`SELECT COUNT(*) FROM pn_history_transaction t JOIN pn_history_txbatch b ON b.entry_hash = t.entry_hash
				WHERE b.height = ? AND t.action_type = 3 AND hex(substr(t.entry_hash,1,16)) = '00000000000000000000000000000000' AND t.to_amount >= ?`, x.h, x.mx-x.n-1).Scan(&k)
			if k >= 2 {
				r.Count("snapshots_with_tied_top_stake", 1)
			}
		}
	}
	r.Count("tie_groups", int64(tieGroups))
	r.Count("paid_snapshots", paidSnapshots)
	r.Count("staking_rows", stakers)
	r.Count("bank_oversubscribed_rows", bankOver)
	r.Count("big_tx_blocks", bigBlocks)
	r.Count("blocks", int64(upto-e.Pegnet))
	r.Info["final"] = final.Total
	r.Info["tables"] = final.Hashes
	r.Info["digest"] = meta.Digest
	r.Info["eras"] = e
	saveJSON(filepath.Join(p.Dir, "rows-ref.json"), final.Tables)
	return nil
}

func c01Replica(j *orch.Job, r *orch.Result) error {
	var p c01ReplicaParams
	json.Unmarshal(j.Params, &p)
	c, err := forge.Load(filepath.Join(p.Dir, "chain.gob"))
	if err != nil {
		return err
	}
	ro := ReplayOpts{DBPath: filepath.Join(j.Dir, "db"), ShortAvg: 12, EntryDelayUS: p.DelayUS, DelaySeed: int64(p.Replica), KeepRows: true, Watchdog: 400 * time.Second}
	if p.DBPath != "" {
		ro.DBPath = p.DBPath
	}
	if p.RateFault && !p.Resume {
		ro.Wrap = true
		var once int32
		ro.OnNode = func(n *harness.Node) {
			vdriver.Set(&vdriver.Hooks{Decide: func(ev *vdriver.Event) (vdriver.Action, time.Duration) {
				if !ev.InTx && ev.Kind == vdriver.KQuery && strings.Contains(ev.SQL, "FROM pn_rate") && n.Fake.Cur() >= c.Eras.PIP10+5 &&
					atomic.CompareAndSwapInt32(&once, 0, 1) {
					os.WriteFile(p.DBPath+".rate-read-failed", []byte(fmt.Sprint(n.Fake.Cur())), 0644)
					return vdriver.FailInstead, 0
				}
				return vdriver.Proceed, 0
			}})
		}
	}
	if p.API {
		// this replica also answers read requests between blocks (one at a time, never during a block): the
		// ledger is a function of the chain, not of who asked the daemon what
		port := freePort()
		conf := viper.New()
		conf.Set(config.APIListen, fmt.Sprintf("127.0.0.1:%d", port))
		var started bool
		ro.OnNode = func(n *harness.Node) {
			if started {
				return
			}
			started = true
			stop := make(chan struct{})
			srv.NewAPIServer(conf, n.P).Start(stop)
			for i := 0; i < 200; i++ {
				if cn, err := net.Dial("tcp", fmt.Sprintf("127.0.0.1:%d", port)); err == nil {
					cn.Close()
					break
				}
				time.Sleep(5 * time.Millisecond)
			}
		}
		qs := []apiQuery{
			{"rich-list", "get-rich-list", map[string]interface{}{"asset": "PEG", "count": 5}},
			{"rich-list", "get-rich-list", map[string]interface{}{"asset": "pXBT", "count": 5}},
			{"rich-list", "get-rich-list", map[string]interface{}{"asset": "pUSD", "count": 5}},
			{"global-rich-list", "get-global-rich-list", map[string]interface{}{"count": 5}},
			{"issuance", "get-pegnet-issuance", nil},
			{"rates", "get-pegnet-rates", map[string]interface{}{}},
			{"sync-status", "get-sync-status", nil},
		}
		ro.AtHeight = func(n *harness.Node, h uint32) error {
			if h < c.Eras.TxConv {
				return nil
			}
			for _, q := range qs {
				if _, err := callAPI(port, q); err == nil {
					r.Count("api_requests_between_blocks", 1)
				}
			}
			return nil
		}
	}
	if p.Replica%3 == 1 {
		// this replica's factomd hiccups: every 29th entry request fails once (the block is retried as a whole);
		// which entries the parallel fetch has already got by then depends on goroutine scheduling
		prev := ro.OnNode
		ro.OnNode = func(n *harness.Node) {
			if prev != nil {
				prev(n)
			}
			var mu sync.Mutex
			cnt := 0
			failed := map[string]bool{}
			lateFailed := map[uint32]bool{}
			n.Fake.SetFault(func(rq harness.Req) harness.Fault {
				if rq.Method != "raw-data" {
					return harness.Fault{}
				}
				mu.Lock()
				defer mu.Unlock()
				cnt++
				k := fmt.Sprint(rq.Cur) // at most one failure per block: the retry must get through
				if cnt%29 == 0 && !failed[k] && !lateFailed[uint32(rq.Cur)] {
					failed[k] = true
					r.Count("entry_requests_failed_once", 1)
					return harness.Fault{Kind: harness.RPCError}
				}
				return harness.Fault{}
			})
			// ... and its database refuses the last statement of every fifth block once (everything of the block has
			// been executed, the transaction is rolled back, the same process applies the block again)
			vdriver.Set(&vdriver.Hooks{Decide: func(ev *vdriver.Event) (vdriver.Action, time.Duration) {
				if !ev.InTx || ev.Kind != vdriver.KExec || !strings.HasPrefix(ev.SQL, "REPLACE INTO pn_metadata") || len(ev.Args) != 2 {
					return vdriver.Proceed, 0
				}
				var bs struct{ Synced uint32 }
				var raw []byte
				switch x := ev.Args[1].(type) {
				case []byte:
					raw = x
				case string:
					raw = []byte(x)
				}
				if json.Unmarshal(raw, &bs) != nil || bs.Synced == 0 {
					return vdriver.Proceed, 0
				}
				mu.Lock()
				defer mu.Unlock()
				if bs.Synced%5 == 2 && !lateFailed[bs.Synced] && !failed[fmt.Sprint(bs.Synced)] {
					lateFailed[bs.Synced] = true
					r.Count("blocks_applied_twice_after_a_late_failure", 1)
					return vdriver.FailInstead, 0
				}
				return vdriver.Proceed, 0
			}})
		}
		ro.Wrap = true
	}
	res, err := Replay(c, ro)
	if err != nil {
		return err
	}
	r.Info["final"] = res.Dump.Total
	r.Info["tables"] = res.Dump.Hashes
	r.Count("requests", int64(res.Requests))
	saveJSON(p.RowsFile, res.Dump.Tables)
	return nil
}

func checkC01(c *Ctx) *orch.Outcome {
	o := c.NewOutcome("exploration")
	o.Rule = "one evaluation = one fresh daemon process replaying a forged chain; compared table-by-table with every other replica of that chain. " +
		"Non-trivial = replica of a chain whose reference run measurably contains ≥1 group of holders with identical staking payout at a paid snapshot " +
		"(plus oversubscribed bank rows and >100-entry blocks, counted separately). Distinct = (chain seed, replica configuration)."
	o.Assumptions = []string{
		"schedules and hash seeds are sampled (fresh processes, GOMAXPROCS 1/2/16, randomized upstream response delays, TZ), not enumerated",
		"every third replica's fake factomd fails every 29th entry request once, and its database refuses the last statement of every fifth block once (the block is rolled back and applied again by the same process)",
		"one replica in six has one read of recorded rates fail in the PIP-10 era: by design that ends the daemon process, and a fresh process finishes the chain on the same database",
		"every third replica also answers read-only API requests (rich lists, issuance, rates, sync status) between blocks, one at a time",
		"averaging window shortened to 12 blocks (node.AveragePeriod) so that PIP-10 conversions execute in compressed chains",
		"era heights compressed (order and equalities of mainnet kept)",
	}
	nChains, nRep := 2, 5
	if c.Thorough() {
		nChains, nRep = 10, 10
	}
	type chainRun struct {
		seed int64
		dir  string
	}
	var chains []chainRun
	var fj []orch.Job
	for i := 0; i < nChains; i++ {
		s := c.Seed*1000 + int64(i)
		dir := c.R.JobDir(fmt.Sprintf("c01-chain-%d", s))
		chains = append(chains, chainRun{s, dir})
		pj, _ := json.Marshal(c01ForgeParams{Dir: dir, Seed: s})
		fj = append(fj, orch.Job{Kind: "c01.forge", Name: fmt.Sprintf("c01-forge-%d", s), Seed: s, Params: pj, Timeout: 900})
	}
	fr := c.R.Run(fj)
	o.Merge(fr)
	var rj []orch.Job
	type repKey struct{ chain, rep int }
	var keys []repKey
	gmp := []string{"1", "2", "16", "4", "8"}
	tzs := []string{"UTC", "Asia/Tokyo", "America/Los_Angeles"}
	for ci, ch := range chains {
		if fr[ci].Crashed || len(fr[ci].Inconclusive) > 0 {
			if fr[ci].Crashed {
				o.Inconclusive = append(o.Inconclusive, fmt.Sprintf("forge job for chain %d crashed: %s", ch.seed, clipS(fr[ci].Stderr, 800)))
			}
			continue
		}
		for k := 0; k < nRep; k++ {
			delay := 0
			if k%2 == 1 {
				delay = 300 + 200*k
			}
			rp := c01ReplicaParams{Dir: ch.dir, Replica: k, DelayUS: delay, API: k%3 == 2, RowsFile: filepath.Join(ch.dir, fmt.Sprintf("rows-%d.json", k))}
			if k%6 == 0 {
				// a failed rate read ends this replica's daemon in the PIP-10 era; a fresh process finishes the chain
				rp.RateFault, rp.DBPath = true, filepath.Join(ch.dir, fmt.Sprintf("db-rep%d", k))
			}
			pj, _ := json.Marshal(rp)
			job := orch.Job{Kind: "c01.replica", Name: fmt.Sprintf("c01-replica-%d-%d", ch.seed, k), Seed: ch.seed, Params: pj, Timeout: 1200,
				Env: []string{"GOMAXPROCS=" + gmp[k%len(gmp)], "TZ=" + tzs[k%len(tzs)]}}
			if k == nRep-1 {
				job.Race = true // one replica per chain runs under the race detector
			}
			rj = append(rj, job)
			keys = append(keys, repKey{ci, k})
		}
	}
	rr := c.R.Run(rj)
	// replicas stopped by their failed rate read are finished by a fresh process
	resumed := 0
	for i := range rr {
		var rp c01ReplicaParams
		json.Unmarshal(rj[i].Params, &rp)
		if !rp.RateFault || !rr[i].Crashed {
			continue
		}
		if !strings.Contains(rr[i].Stderr, "getting rates") && !strings.Contains(rr[i].Stderr, "pn_rate") {
			continue // crashed for another reason: reported below
		}
		rp.Resume = true
		pj, _ := json.Marshal(rp)
		job := orch.Job{Kind: "c01.replica", Name: rj[i].Name + "-resumed", Seed: rj[i].Seed, Params: pj, Timeout: 1200, Env: rj[i].Env}
		rr[i] = c.R.RunOne(&job)
		resumed++
	}
	o.Merge(rr)
	o.Extra["replicas_finished_by_a_fresh_process_after_a_failed_rate_read"] = resumed

	// compare
	distinctHashes := map[int]map[string]bool{}
	var raceReports int
	for i, res := range rr {
		k := keys[i]
		ch := chains[k.chain]
		if res.Crashed {
			o.Inconclusive = append(o.Inconclusive, fmt.Sprintf("replica %d of chain %d crashed: %s", k.rep, ch.seed, clipS(res.Stderr, 800)))
			continue
		}
		if len(res.Inconclusive) > 0 {
			continue
		}
		o.Evaluations++
		raceReports += res.RaceReports
		ref := fr[k.chain]
		if ref.Counters["tie_groups"] > 0 {
			o.Nontrivial++
		}
		if distinctHashes[k.chain] == nil {
			distinctHashes[k.chain] = map[string]bool{fmt.Sprint(ref.Info["final"]): true}
		}
		h := fmt.Sprint(res.Info["final"])
		distinctHashes[k.chain][h] = true
		if h != fmt.Sprint(ref.Info["final"]) {
			// load rows for a table-level diff
			var a, b map[string][]string
			loadJSON(filepath.Join(ch.dir, "rows-ref.json"), &a)
			loadJSON(filepath.Join(ch.dir, fmt.Sprintf("rows-%d.json", k.rep)), &b)
			da := &harness.Dump{Tables: a, Hashes: toStrMap(ref.Info["tables"])}
			db := &harness.Dump{Tables: b, Hashes: toStrMap(res.Info["tables"])}
			diff := harness.DiffDumps(da, db)
			tables := ""
			for t, hs := range da.Hashes {
				if db.Hashes[t] != hs {
					tables += t + ","
				}
			}
			o.Violations = append(o.Violations, orch.Violation{Property: "C01",
				Signature: "dump-mismatch tables=" + sortCSV(tables),
				Detail:    fmt.Sprintf("chain seed %d: replica %d (GOMAXPROCS=%s) produced a different ledger than the reference run of the same chain\n%s", ch.seed, k.rep, gmp[k.rep%len(gmp)], joinLines(diff, 12)),
				Case:      map[string]interface{}{"chain_seed": ch.seed, "replica": k.rep, "eras": ref.Info["eras"]}})
		}
	}
	maxDistinct := 0
	for _, m := range distinctHashes {
		if len(m) > maxDistinct {
			maxDistinct = len(m)
		}
	}
	o.Extra["chains"] = nChains
	o.Extra["replicas_per_chain"] = nRep
	o.Extra["max_distinct_dump_hashes_per_chain"] = maxDistinct
	o.Extra["measured_tie_groups"] = orch.SumCounter(fr, "tie_groups")
	o.Extra["paid_snapshots"] = orch.SumCounter(fr, "paid_snapshots")
	o.Extra["snapshots_with_tied_top_stake"] = orch.SumCounter(fr, "snapshots_with_tied_top_stake")
	o.Extra["bank_oversubscribed_rows"] = orch.SumCounter(fr, "bank_oversubscribed_rows")
	o.Extra["big_tx_blocks"] = orch.SumCounter(fr, "big_tx_blocks")
	o.Extra["blocks_per_chain_total"] = orch.SumCounter(fr, "blocks")
	o.Extra["race_detector_reports_in_replicas"] = raceReports
	for _, f := range fr {
		for _, s := range f.Samples {
			if len(o.Samples) < 6 {
				o.Samples = append(o.Samples, s)
			}
		}
	}
	o.MinNontrivial = int64(nRep)
	return o
}
