package checks

import (
	"flag"
	"fmt"
	"os"
	"strconv"
	"time"

	"verif/lab/orch"
)

// Ctx is what a property check gets from the command line.
type Ctx struct {
	ID     string
	Tier   string
	Seed   int64
	Replay string
	R      *orch.Runner
}

func (c *Ctx) Thorough() bool { return c.Tier == "thorough" }

// NewOutcome starts an outcome record.
func (c *Ctx) NewOutcome(level string) *orch.Outcome {
	return &orch.Outcome{Property: c.ID, Tier: c.Tier, Seed: c.Seed, Level: level, Start: time.Now(), Extra: map[string]interface{}{}, MinNontrivial: 2}
}

type checkFn func(c *Ctx) *orch.Outcome

var registry = map[string]checkFn{}

// Main is `lab check <ID> ...`.
func Main(args []string) int {
	if len(args) < 1 {
		fmt.Fprintln(os.Stderr, "usage: lab check <ID> [-tier quick|thorough] [-seed N] [-replay file]")
		return 2
	}
	id := args[0]
	fs := flag.NewFlagSet("check", flag.ContinueOnError)
	tier := fs.String("tier", envOr("VERIF_TIER", "quick"), "quick|thorough")
	seedDef, _ := strconv.ParseInt(envOr("VERIF_SEED", "1"), 10, 64)
	seed := fs.Int64("seed", seedDef, "seed")
	replay := fs.String("replay", "", "replay file")
	if err := fs.Parse(args[1:]); err != nil {
		return 2
	}
	fn, ok := registry[id]
	if !ok {
		fmt.Fprintln(os.Stderr, "no check registered for", id)
		return 2
	}
	r, err := orch.NewRunner()
	if err != nil {
		fmt.Fprintln(os.Stderr, "runner:", err)
		return 2
	}
	defer r.Cleanup()
	c := &Ctx{ID: id, Tier: *tier, Seed: *seed, Replay: *replay, R: r}
	o := fn(c)
	code := o.Finish(VerifDir())
	return code
}

func envOr(k, d string) string {
	if v := os.Getenv(k); v != "" {
		return v
	}
	return d
}
