package checks

import (
	"database/sql"
	"encoding/json"
	"errors"
	"fmt"
	"math/rand"
	"os"
	"path/filepath"
	"strings"
	"sync/atomic"
	"time"

	"github.com/pegnet/pegnetd/node/pegnet"
	"verif/lab/forge"
	"verif/lab/harness"
	"verif/lab/orch"
	"verif/lab/vdriver"
)

// C19 Version lock — bounded-exhaustive session histories. Each history is a sequence of sessions
// (build sync-version, number of blocks synced) on one database, against a table of hard forks.
// Every start is a real NewPegnetd; blocks are committed by the real DBlockSync. The oracle is the
// statement itself, evaluated on the ground truth "which build synced which height".

type c19Session struct {
	Version int `json:"version"` // -1 = build predating version tracking
	Blocks  int `json:"blocks"`
	// Override: the operator starts this session with app.DisableHardForkCheck (a refusal is only a warning)
	Override bool `json:"override,omitempty"`
	// Fault: during this session the write of one block's version row fails once (1 = the session's last
	// block, 2 = its first block, 3 = a fork height inside the session if there is one, else the last block)
	Fault int `json:"fault,omitempty"`
}

type c19History struct {
	Sessions []c19Session       `json:"sessions"`
	Forks    []pegnet.ForkEvent `json:"forks"`
	Final    int                `json:"final_version"` // version of one more start at the end
}

type c19Params struct {
	Histories []c19History `json:"histories"`
	Literal   bool         `json:"literal"` // use the compiled-in fork table and mainnet heights
}

func init() {
	registry["C19"] = checkC19
	orch.Register("c19.batch", c19Batch)
}

// forkOracle: refuse iff some block at or above a fork height was synced by a build older than the
// fork requires (legacy = -1), or some block was synced by a newer build than the one starting.
func forkOracle(synced map[uint32]int, forks []pegnet.ForkEvent, starting int) (bool, string) {
	for h, v := range synced {
		if v > starting {
			return true, fmt.Sprintf("height %d was synced by build %d, newer than the starting build %d", h, v, starting)
		}
	}
	for _, f := range forks {
		for h, v := range synced {
			if h >= f.ActivationHeight && v < f.MinimumVersion {
				return true, fmt.Sprintf("height %d (≥ fork %d) was synced by build %d, fork requires %d", h, f.ActivationHeight, v, f.MinimumVersion)
			}
		}
	}
	return false, ""
}

func c19Batch(j *orch.Job, r *orch.Result) error {
	var p c19Params
	json.Unmarshal(j.Params, &p)
	defaultForks := append([]pegnet.ForkEvent{}, pegnet.Hardforks...)
	defaultVersion := pegnet.PegnetdSyncVersion
	defer func() { pegnet.Hardforks, pegnet.PegnetdSyncVersion = defaultForks, defaultVersion }()

	var e forge.Eras
	if p.Literal {
		e = forge.Mainnet()
		e.Pegnet = 231610 // start close to the first literal fork height (231620); all other heights literal
	} else {
		e = StdEras(1000)
	}
	// a chain of empty blocks is enough: the property is about which build committed which height
	w := forge.NewWorld(e, 1, 1)
	n := 40
	if p.Literal {
		n = 24
	}
	for h := e.Pegnet + 1; h <= e.Pegnet+uint32(n); h++ {
		w.Commit(forge.BlockSpec{Height: h})
	}
	setAvg(12)
	for hi, hist := range p.Histories {
		dbp := filepath.Join(j.Dir, fmt.Sprintf("h%d", hi))
		forks := append([]pegnet.ForkEvent{{ActivationHeight: 0, MinimumVersion: -1}}, hist.Forks...)
		if p.Literal {
			forks = defaultForks
		}
		pegnet.Hardforks = forks
		truth := map[uint32]int{}
		cur := e.Pegnet
		sessions := append([]c19Session{}, hist.Sessions...)
		sessions = append(sessions, c19Session{Version: hist.Final, Blocks: 0})
		desc := map[string]interface{}{"sessions": hist.Sessions, "forks": hist.Forks, "final_start_version": hist.Final, "genesis": e.Pegnet, "literal_fork_table": p.Literal}
		for si, s := range sessions {
			legacy := s.Version < 0
			if legacy {
				pegnet.PegnetdSyncVersion = 0
			} else {
				pegnet.PegnetdSyncVersion = s.Version
			}
			want, why := forkOracle(truth, forks, s.Version)
			if legacy {
				want = false // a build without version tracking has no check at all
			}
			if s.Override && !legacy {
				// an overridden start always comes up; what it syncs is recorded in the ground truth like any other session
				nd, err := harness.StartNode(harness.NodeConfig{DBPath: dbp, DisableFork: true}, w.Chain)
				r.Count("override_sessions", 1)
				if err != nil {
					r.Violate("C19", "override-ignored", fmt.Sprintf("DisableHardForkCheck did not let the daemon start: %v", err), desc)
					break
				}
				if s.Blocks > 0 {
					nd.Run()
					target := cur + uint32(s.Blocks)
					if err := nd.WaitSynced(target, harness.WaitOpts{}); err != nil {
						nd.Stop()
						return err
					}
					for h := cur + 1; h <= target; h++ {
						truth[h] = s.Version
					}
					cur = target
				}
				nd.Stop()
				continue
			}
			legacyFrom := cur
			faulty := s.Fault != 0 && !legacy && s.Blocks > 0
			if faulty {
				// a transient database fault while an adequate build syncs: the block is rolled back and applied
				// again; what the database says about who synced which height must not suffer
				fh := cur + uint32(s.Blocks)
				switch s.Fault {
				case 2:
					fh = cur + 1
				case 3:
					for _, f := range forks {
						if f.ActivationHeight > cur && f.ActivationHeight <= cur+uint32(s.Blocks) {
							fh = f.ActivationHeight
						}
					}
				}
				var once int32
				vdriver.Set(&vdriver.Hooks{Decide: func(ev *vdriver.Event) (vdriver.Action, time.Duration) {
					if ev.Kind == vdriver.KExec && strings.HasPrefix(ev.SQL, `INSERT INTO "pn_sync_version"`) && len(ev.Args) >= 1 {
						if hv, ok := ev.Args[0].(int64); ok && uint32(hv) == fh && atomic.CompareAndSwapInt32(&once, 0, 1) {
							r.Count("version_row_writes_failed_once", 1)
							return vdriver.FailInstead, 0
						}
					}
					return vdriver.Proceed, 0
				}})
			}
			nd, err := harness.StartNode(harness.NodeConfig{DBPath: dbp, DisableFork: legacy, Wrap: faulty}, w.Chain)
			if faulty {
				defer vdriver.Set(nil)
			}
			r.Count("starts", 1)
			refused := false
			if err != nil {
				var er harness.ErrRefused
				if errors.As(err, &er) {
					refused = true
				} else {
					return err
				}
			}
			r.Seen("shapes", fmt.Sprintf("want=%v sessions=%d legacy-prefix=%v forks=%d", want, si, len(hist.Sessions) > 0 && hist.Sessions[0].Version < 0, len(hist.Forks)))
			if want {
				r.Count("expected_refusals", 1)
			} else {
				r.Count("expected_accepts", 1)
			}
			if refused != want {
				d2 := map[string]interface{}{"history": desc, "at_session": si, "starting_version": s.Version, "synced_heights": truthList(truth), "oracle": why}
				if want {
					at := "other"
					for _, f := range forks {
						if cur == f.ActivationHeight && f.ActivationHeight > 0 {
							at = "synced-exactly-to-fork-height"
						}
					}
					r.Violate("C19", fmt.Sprintf("accepted-but-must-refuse legacy=%v position=%s", hasLegacy(truth), at),
						fmt.Sprintf("NewPegnetd (build %d) accepted a database it must refuse: %s", s.Version, why), d2)
				} else {
					r.Violate("C19", fmt.Sprintf("refused-but-must-accept legacy=%v", hasLegacy(truth)),
						fmt.Sprintf("NewPegnetd (build %d) refused a database synced entirely with adequate builds: %v", s.Version, err), d2)
				}
			}
			if refused {
				// also: the explicit override must let it start
				nd2, err2 := harness.StartNode(harness.NodeConfig{DBPath: dbp, DisableFork: true}, w.Chain)
				r.Count("override_starts", 1)
				if err2 != nil {
					r.Violate("C19", "override-ignored", fmt.Sprintf("DisableHardForkCheck did not let the daemon start: %v", err2), desc)
				} else {
					nd2.Stop()
				}
				break // a refused database is not used further
			}
			if nd == nil {
				break
			}
			if s.Blocks > 0 {
				nd.Run()
				target := cur + uint32(s.Blocks)
				if err := nd.WaitSynced(target, harness.WaitOpts{}); err != nil {
					nd.Stop()
					return err
				}
				for h := cur + 1; h <= target; h++ {
					truth[h] = s.Version
				}
				cur = target
			}
			nd.Stop()
			if faulty {
				vdriver.Set(nil)
			}
			if legacy {
				// a build predating version tracking leaves no rows in pn_sync_version
				db, err := sql.Open("sqlite3", "file:"+dbp+".v4?_busy_timeout=10000")
				if err != nil {
					return err
				}
				// (only of the heights THIS session synced: rows written by tracking builds before it stay)
				if _, err := db.Exec("DELETE FROM pn_sync_version WHERE height > ?", legacyFrom); err != nil {
					db.Close()
					return err
				}
				db.Close()
			}
		}
		if len(r.Samples) < 3 {
			r.Sample(desc)
		}
		r.Count("histories", 1)
		os.Remove(dbp + ".v4")
	}
	return nil
}

func hasLegacy(t map[uint32]int) bool {
	for _, v := range t {
		if v < 0 {
			return true
		}
	}
	return false
}

func truthList(t map[uint32]int) map[string]int {
	out := map[string]int{}
	for h, v := range t {
		out[fmt.Sprint(h)] = v
	}
	return out
}

func checkC19(c *Ctx) *orch.Outcome {
	o := c.NewOutcome("exploration")
	o.Rule = "one evaluation = one daemon start (real NewPegnetd) on a database produced by a history of sessions (build sync-version ∈ {legacy,1,2,3}, blocks ∈ {0,1,2,5}, committed by the real DBlockSync) against a fork table; accept/refuse is compared with the statement evaluated on the ground truth of which build synced which height. " +
		"Distinct non-trivial = distinct (expected verdict, session index, legacy prefix, number of forks) shapes; both verdicts must occur."
	o.Assumptions = []string{
		"a build predating version tracking is emulated by syncing and then deleting the pn_sync_version rows of the heights that session synced; such sessions occur at any position of a history",
		"fork heights are placed inside or right above the synced range (never below the database's genesis height)",
		"empty blocks (which build committed a height does not depend on its content)",
		"in every fifth history the write of one block's version row fails once per tracking session (last block, first block or a fork height): a transient fault, the block is applied again",
	}
	rng := rand.New(rand.NewSource(c.Seed))
	base := StdEras(1000).Pegnet
	versions := []int{-1, 1, 2, 3}
	blocks := []int{0, 1, 2, 5}
	var all []c19History
	var gen func(prefix []c19Session, depth int)
	maxS := 3
	gen = func(prefix []c19Session, depth int) {
		if len(prefix) > 0 {
			all = append(all, c19History{Sessions: append([]c19Session{}, prefix...)})
		}
		if depth == maxS {
			return
		}
		for _, v := range versions {
			// (a build predating version tracking may run at any point of a history: an operator going back to a very old binary)
			for _, b := range blocks {
				gen(append(prefix, c19Session{Version: v, Blocks: b}), depth+1)
			}
		}
	}
	gen(nil, 0)
	// attach fork tables and a final start version
	var hs []c19History
	for _, h := range all {
		total := 0
		var bounds []uint32
		for _, s := range h.Sessions {
			total += s.Blocks
			bounds = append(bounds, base+uint32(total))
		}
		var fhs []uint32
		seen := map[uint32]bool{}
		for _, b := range bounds {
			for _, d := range []int{-1, 0, 1} {
				x := uint32(int(b) + d)
				if x > base && !seen[x] {
					seen[x] = true
					fhs = append(fhs, x)
				}
			}
		}
		for _, f := range fhs {
			for _, mv := range []int{1, 2, 3} {
				for _, fin := range []int{1, 2, 3} {
					hs = append(hs, c19History{Sessions: h.Sessions, Forks: []pegnet.ForkEvent{{ActivationHeight: f, MinimumVersion: mv}}, Final: fin})
				}
			}
		}
		// two forks
		if len(fhs) >= 2 {
			a, b := fhs[rng.Intn(len(fhs))], fhs[rng.Intn(len(fhs))]
			if a > b {
				a, b = b, a
			}
			if a != b {
				hs = append(hs, c19History{Sessions: h.Sessions, Forks: []pegnet.ForkEvent{{ActivationHeight: a, MinimumVersion: 1}, {ActivationHeight: b, MinimumVersion: 2}}, Final: 1 + rng.Intn(3)})
			}
		}
	}
	// two (or three) forks with the earlier sessions started under the operator's override: the database gets
	// past a fork it should have been stopped at, and a later ordinary start must still refuse it
	var ov []c19History
	for _, h := range all {
		if len(h.Sessions) < 2 {
			continue
		}
		tot := 0
		var bounds []uint32
		for _, s := range h.Sessions {
			tot += s.Blocks
			bounds = append(bounds, base+uint32(tot))
		}
		if tot < 3 {
			continue
		}
		ss := append([]c19Session{}, h.Sessions...)
		for i := range ss {
			ss[i].Override = ss[i].Version >= 0
		}
		for k := 0; k < 3; k++ {
			f1 := base + 1 + uint32(rng.Intn(tot))
			f2 := f1 + 1 + uint32(rng.Intn(tot))
			if f2 > base+uint32(tot) {
				f2 = base + uint32(tot)
			}
			if f2 <= f1 {
				continue
			}
			forks := []pegnet.ForkEvent{{ActivationHeight: f1, MinimumVersion: 1 + rng.Intn(2)}, {ActivationHeight: f2, MinimumVersion: 2 + rng.Intn(2)}}
			if rng.Intn(3) == 0 && f1 > base+1 {
				forks = append([]pegnet.ForkEvent{{ActivationHeight: f1 - 1, MinimumVersion: 1}}, forks...)
			}
			ov = append(ov, c19History{Sessions: ss, Forks: forks, Final: 1 + rng.Intn(3)})
		}
	}
	rng.Shuffle(len(ov), func(i, j int) { ov[i], ov[j] = ov[j], ov[i] })
	if !c.Thorough() && len(ov) > 1500 {
		ov = ov[:1500]
	}
	total := len(hs) + len(ov)
	if !c.Thorough() {
		rng.Shuffle(len(hs), func(i, j int) { hs[i], hs[j] = hs[j], hs[i] })
		if len(hs) > 3000 {
			hs = hs[:3000]
		}
	}
	hs = append(hs, ov...)
	// in every fifth history the version-row write of one block per tracking session fails once
	for i := range hs {
		if i%5 != 2 {
			continue
		}
		ss := append([]c19Session{}, hs[i].Sessions...)
		for k := range ss {
			if ss[k].Version >= 0 && ss[k].Blocks > 0 && !ss[k].Override {
				ss[k].Fault = 1 + (i/5+k)%3
			}
		}
		hs[i].Sessions = ss
	}
	var jobs []orch.Job
	per := (len(hs) + 31) / 32
	for i := 0; i < len(hs); i += per {
		end := i + per
		if end > len(hs) {
			end = len(hs)
		}
		pj, _ := json.Marshal(c19Params{Histories: hs[i:end]})
		jobs = append(jobs, orch.Job{Kind: "c19.batch", Name: fmt.Sprintf("c19-batch-%d", i), Params: pj, Timeout: 1800})
	}
	// the literal fork table with literal heights (a change to pegnet.Hardforks must not hide behind lab tables)
	var lit []c19History
	mk := func(p ...int) []c19Session {
		var out []c19Session
		for i := 0; i+1 < len(p); i += 2 {
			out = append(out, c19Session{Version: p[i], Blocks: p[i+1]})
		}
		return out
	}
	for _, ss := range [][]c19Session{
		mk(-1, 9), mk(-1, 10), mk(-1, 11), mk(-1, 10, 2, 1), mk(1, 12), mk(0, 12), mk(2, 12), mk(1, 9, 2, 3), mk(2, 12, 1, 0), mk(-1, 5, 1, 8), mk(-1, 12, 2, 2),
	} {
		for _, fin := range []int{1, 2} {
			lit = append(lit, c19History{Sessions: ss, Final: fin})
		}
	}
	pj, _ := json.Marshal(c19Params{Histories: lit, Literal: true})
	jobs = append(jobs, orch.Job{Kind: "c19.batch", Name: "c19-literal", Params: pj, Timeout: 900})
	rs := c.R.Run(jobs)
	o.Merge(rs)
	for i, r := range rs {
		if r.Crashed {
			o.Inconclusive = append(o.Inconclusive, fmt.Sprintf("%s crashed: %s", jobs[i].Name, clipS(r.Stderr, 500)))
		}
	}
	o.Evaluations = orch.SumCounter(rs, "starts")
	o.Nontrivial = int64(len(orch.UnionDistinct(rs, "shapes")))
	o.Extra["histories"] = orch.SumCounter(rs, "histories")
	o.Extra["histories_in_bound"] = total
	o.Extra["expected_refusals"] = orch.SumCounter(rs, "expected_refusals")
	o.Extra["expected_accepts"] = orch.SumCounter(rs, "expected_accepts")
	o.Extra["override_starts"] = orch.SumCounter(rs, "override_starts")
	o.Extra["overridden_sessions"] = orch.SumCounter(rs, "override_sessions")
	o.Extra["version_row_writes_failed_once"] = orch.SumCounter(rs, "version_row_writes_failed_once")
	if c.Thorough() {
		o.Exhaustive = true
		o.Extra["exhaustive_within"] = "all histories of ≤3 sessions × versions {legacy,1,2,3} × blocks {0,1,2,5} × one fork at every height within ±1 of a session boundary × minimum version {1,2,3} × final start version {1,2,3}"
	}
	if orch.SumCounter(rs, "expected_refusals") == 0 || orch.SumCounter(rs, "expected_accepts") == 0 {
		o.Inconclusive = append(o.Inconclusive, "one of the two verdicts never occurred")
	}
	o.MinNontrivial = 8
	return o
}
