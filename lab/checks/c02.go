package checks

import (
	"database/sql"
	"encoding/json"
	"fmt"
	"math/rand"
	"os"
	"path/filepath"
	"sort"
	"sync/atomic"
	"time"

	"verif/lab/forge"
	"verif/lab/harness"
	"verif/lab/orch"
	"verif/lab/vdriver"
)

// C02 Per-block atomicity / crash consistency — fault enumeration over crash points.
// For a special block b, the daemon is started on the checkpoint of b-1 and SIGKILLs itself
// before or after the k-th database statement of the block attempt (BEGIN and COMMIT included,
// statements on pool connections included). A fresh verifier process then opens the database
// file and checks: integrity, recorded height s ∈ {b-1, b}, ledger == reference state[s],
// height rows contiguous and ending at s; a resume to b+3 must reach the reference state.

type c02CrashParams struct {
	Dir    string `json:"dir"` // chain dir
	Block  uint32 `json:"block"`
	K      int    `json:"k"`
	After  bool   `json:"after"`
	Fail   bool   `json:"fail"` // instead of killing the process, make statement k return an error once ("a block fails")
	WAL    bool   `json:"wal"`
	DBPath string `json:"db_path"`
}

type c02VerifyParams struct {
	Dir    string `json:"dir"`
	Block  uint32 `json:"block"`
	K      int    `json:"k"`
	After  bool   `json:"after"`
	Fail   bool   `json:"fail"`
	Site   string `json:"site"`
	WAL    bool   `json:"wal"`
	DBPath string `json:"db_path"`
	Stmt   string `json:"stmt"`
	Label  string `json:"label"`
}

func init() {
	registry["C02"] = checkC02
	orch.Register("c02.crash", c02Crash)
	orch.Register("c02.verify", c02Verify)
}

// c02Crash syncs one block and kills the process at the chosen statement.
func c02Crash(j *orch.Job, r *orch.Result) error {
	var p c02CrashParams
	json.Unmarshal(j.Params, &p)
	c, err := forge.Load(filepath.Join(p.Dir, "chain.gob"))
	if err != nil {
		return err
	}
	setAvg(12)
	if err := copyFile(filepath.Join(p.Dir, fmt.Sprintf("ckpt-%d.db", p.Block-1)), p.DBPath+".v4"); err != nil {
		return err
	}
	// every other crash point runs with a page cache of a few pages: dirty pages of the open transaction then reach
	// the database file long before COMMIT, and only the journal on disk can undo them after a kill
	cache := 0
	if p.K%2 == 0 && !p.Fail {
		cache = 8
	}
	n, err := harness.StartNode(harness.NodeConfig{DBPath: p.DBPath, Wrap: true, WAL: p.WAL, Sync: "FULL", CachePages: cache}, c)
	if err != nil {
		return err
	}
	var cnt int64
	var started int32
	vdriver.Set(&vdriver.Hooks{Decide: func(ev *vdriver.Event) (vdriver.Action, time.Duration) {
		if ev.Kind == vdriver.KBegin {
			atomic.StoreInt32(&started, 1)
		}
		if atomic.LoadInt32(&started) == 0 {
			return vdriver.Proceed, 0
		}
		k := atomic.AddInt64(&cnt, 1)
		if int(k) == p.K {
			if p.Fail {
				return vdriver.FailInstead, 0
			}
			if p.After {
				return vdriver.KillAfter, 0
			}
			return vdriver.KillBefore, 0
		}
		return vdriver.Proceed, 0
	}})
	if p.Fail && p.K <= 0 {
		// "a block fails" because factomd does: the first request for the block's directory block (K == 0) or for
		// one of its entries (K == -1) is answered with an error, once
		var once int32
		n.Fake.SetFault(func(rq harness.Req) harness.Fault {
			if rq.Cur != p.Block {
				return harness.Fault{}
			}
			if (p.K == 0 && rq.Method == "dblock-by-height" && rq.Height == p.Block) || (p.K == -1 && rq.Method == "raw-data" && rq.Seq%3 == 0) {
				if atomic.CompareAndSwapInt32(&once, 0, 1) {
					return harness.Fault{Kind: harness.RPCError}
				}
			}
			return harness.Fault{}
		})
	}
	n.Run()
	if p.Fail {
		// the block fails once; the daemon then goes on for two blocks (or stops: crash-stop)
		err = n.WaitSynced(p.Block+1, harness.WaitOpts{MaxAttempts: 6})
		r.Info["failed_block_run"] = true
		if err != nil {
			r.Info["stopped"] = err.Error()
			return nil
		}
		n.Stop()
		return nil
	}
	err = n.WaitSynced(p.Block, harness.WaitOpts{})
	// reaching this point means the kill point was not hit (k beyond the statements of the attempt)
	r.Info["not_killed"] = true
	r.Info["statements_seen"] = atomic.LoadInt64(&cnt)
	n.Stop()
	return err
}

func contiguous(db *sql.DB, from, to uint32) (bool, string) {
	rows, err := db.Query("SELECT height FROM pn_sync_version WHERE version != -1 ORDER BY height")
	if err != nil {
		return false, err.Error()
	}
	defer rows.Close()
	want := from
	n := 0
	for rows.Next() {
		var h uint32
		rows.Scan(&h)
		if h != want {
			return false, fmt.Sprintf("expected height row %d, found %d", want, h)
		}
		want++
		n++
	}
	if want-1 != to {
		return false, fmt.Sprintf("height rows end at %d, recorded sync height is %d", want-1, to)
	}
	return true, ""
}

// c02Verify is the fresh process that looks at the database after the crash.
func c02Verify(j *orch.Job, r *orch.Result) error {
	var p c02VerifyParams
	json.Unmarshal(j.Params, &p)
	rm, err := loadRich(p.Dir)
	if err != nil {
		return err
	}
	when := "before"
	if p.After {
		when = "after"
	}
	if p.Fail {
		when = "fails"
	}
	cd := map[string]interface{}{"block": p.Block, "label": p.Label, "k": p.K, "when": when, "statement": p.Stmt, "wal": p.WAL, "chain_seed": rm.Meta.Seed}
	sig := func(what string) string {
		if p.Fail {
			return fmt.Sprintf("%s label=%s stmt=%s/%s site=%s", what, p.Label, when, clipS(p.Stmt, 60), p.Site)
		}
		return fmt.Sprintf("%s label=%s stmt=%s/%s", what, p.Label, when, clipS(p.Stmt, 60))
	}
	// plain driver, read-write open (recovers a hot journal / WAL like any fresh process would)
	dsn := "file:" + p.DBPath + ".v4?_busy_timeout=10000"
	if p.WAL {
		dsn += "&_journal=WAL"
	}
	db, err := sql.Open("sqlite3", dsn)
	if err != nil {
		return err
	}
	var ic string
	if err := db.QueryRow("PRAGMA integrity_check").Scan(&ic); err != nil || ic != "ok" {
		r.Violate("C02", sig("integrity"), fmt.Sprintf("integrity_check after crash: %v %q", err, ic), cd)
		db.Close()
		return nil
	}
	s, err := harness.ReadSynced(db)
	if err != nil {
		db.Close()
		return err
	}
	cd["recorded_height"] = s
	r.Count("crash_points_verified", 1)
	if s == p.Block {
		r.Count("crashes_after_commit_point", 1)
	} else {
		r.Count("crashes_before_commit_point", 1)
	}
	if p.Fail {
		r.Count("block_failure_points_verified", 1)
	}
	if s != p.Block-1 && s != p.Block && !(p.Fail && s == p.Block+1) {
		r.Violate("C02", sig("height"), fmt.Sprintf("recorded sync height %d after a crash while applying block %d", s, p.Block), cd)
		db.Close()
		return nil
	}
	d, err := harness.TakeDump(db, harness.DumpOptions{DropBackfill: true, KeepRows: true})
	if err != nil {
		db.Close()
		return err
	}
	if want := rm.Meta.PerHeight[s]; d.Total != want {
		// which tables? compare against a reference dump rebuilt from the checkpoint when s == b-1
		detail := fmt.Sprintf("database after the crash records height %d but its ledger (hash %s) is not the reference state of that height (%s)", s, d.Total, want)
		if s == p.Block-1 {
			if ck, err := harness.OpenRO(filepath.Join(p.Dir, fmt.Sprintf("ckpt-%d.db", s))); err == nil {
				if rd, err := harness.TakeDump(ck, harness.DumpOptions{DropBackfill: true, KeepRows: true}); err == nil {
					detail += "\n(A = reference checkpoint, B = after crash)\n" + joinLines(harness.DiffDumps(rd, d), 8)
				}
				ck.Close()
			}
		}
		r.Violate("C02", sig("partial-block"), detail, cd)
	}
	if ok, why := contiguous(db, rm.Meta.Eras.Pegnet+1, s); !ok {
		r.Violate("C02", sig("height-rows"), why, cd)
	}
	db.Close()
	// resume with a fresh daemon and compare a few blocks later
	c, err := forge.Load(filepath.Join(p.Dir, "chain.gob"))
	if err != nil {
		return err
	}
	upto := p.Block + 3
	if upto > c.GetTip() {
		upto = c.GetTip()
	}
	res, err := Replay(c, ReplayOpts{DBPath: p.DBPath, ShortAvg: 12, Upto: upto, WAL: p.WAL})
	if err != nil {
		r.Violate("C02", sig("resume-failed"), "resume after crash did not reach the tip: "+err.Error(), cd)
		return nil
	}
	r.Count("resumes", 1)
	if res.Dump.Total != rm.Meta.PerHeight[upto] {
		r.Violate("C02", sig("resume-diverged"), fmt.Sprintf("after resuming to %d the ledger differs from the uninterrupted run", upto), cd)
	}
	if len(r.Samples) == 0 {
		r.Sample(cd)
	}
	os.Remove(p.DBPath + ".v4")
	os.Remove(p.DBPath + ".v4-journal")
	os.Remove(p.DBPath + ".v4-wal")
	os.Remove(p.DBPath + ".v4-shm")
	return nil
}

func checkC02(c *Ctx) *orch.Outcome {
	o := c.NewOutcome("fault_enumeration")
	o.Rule = "one evaluation = one crash point: (special block, k-th database statement of its attempt incl. BEGIN/COMMIT and pool reads, kill before|after, journal mode). SIGKILL of the real daemon process; a fresh process verifies integrity, recorded height ∈ {b-1,b}, ledger == reference state of the recorded height, contiguous height rows, and resumes to b+3. " +
		"Distinct non-trivial = distinct (block label, statement call-site stratum, before/after, journal mode) where the kill really happened (the crash child died by SIGKILL)."
	o.Assumptions = []string{
		"process kill (page cache survives), not power loss",
		"start-up back-fill rows (version=-1) are bookkeeping and excluded",
		"compressed eras; averaging window 12; _synchronous=FULL in crash children",
	}
	seed := c.Seed
	dir := c.R.JobDir(fmt.Sprintf("c02-chain-%d", seed))
	pj, _ := json.Marshal(richParams{Dir: dir, Seed: seed})
	fr := c.R.Run([]orch.Job{{Kind: "rich.forge", Name: "c02-rich-forge", Seed: seed, Params: pj, Timeout: 1200}})
	o.Merge(fr)
	if fr[0].Crashed || len(fr[0].Inconclusive) > 0 {
		o.Inconclusive = append(o.Inconclusive, "reference chain could not be forged: "+clipS(fr[0].Stderr, 800))
		return o
	}
	rm, err := loadRich(dir)
	if err != nil {
		o.Inconclusive = append(o.Inconclusive, err.Error())
		return o
	}
	rng := rand.New(rand.NewSource(seed))
	type point struct {
		b     uint32
		k     int
		after bool
		wal   bool
		st    StmtInfo
		label string
		fail  bool
	}
	var pts []point
	totalPoints := 0
	for _, b := range rm.Special {
		prof := rm.Profiles[b]
		S := len(prof.Stmts)
		totalPoints += 2 * S
		if S == 0 {
			continue
		}
		pick := map[int]bool{}
		if c.Thorough() {
			for k := 1; k <= S; k++ {
				pick[k] = true
			}
		} else {
			// always: BEGIN, first write, last statement before COMMIT, COMMIT; plus one per call-site stratum; plus random
			pick[1] = true
			pick[S] = true
			if S > 1 {
				pick[S-1] = true
			}
			seenStratum := map[string]bool{}
			for _, st := range prof.Stmts {
				if st.Kind == "exec" && st.InTx {
					pick[st.K] = true
					break
				}
			}
			for _, st := range prof.Stmts {
				if !seenStratum[st.Stratum()] && len(seenStratum) < 8 {
					seenStratum[st.Stratum()] = true
					pick[st.K] = true
				}
			}
			for i := 0; i < 2; i++ {
				pick[1+rng.Intn(S)] = true
			}
		}
		var ks []int
		for k := range pick {
			ks = append(ks, k)
		}
		sort.Ints(ks)
		for _, k := range ks {
			st := prof.Stmts[k-1]
			for _, after := range []bool{false, true} {
				if !c.Thorough() && after && k != S && k != S-1 && rng.Intn(3) != 0 {
					continue
				}
				wal := false
				if c.Thorough() {
					pts = append(pts, point{b, k, after, true, st, prof.Label, false})
				} else if rng.Intn(4) == 0 {
					wal = true
				}
				pts = append(pts, point{b, k, after, wal, st, prof.Label, false})
			}
		}
	}
	// "or a block fails at any instant": the same points, but the statement returns an error once instead of the process dying
	nKill := len(pts)
	for i := 0; i < nKill; i++ {
		pt := pts[i]
		if pt.after || pt.wal {
			continue
		}
		if c.Thorough() || pt.k == 1 || pt.k == len(rm.Profiles[pt.b].Stmts) || rng.Intn(6) == 0 {
			pt.fail = true
			pts = append(pts, pt)
		}
	}
	// ... in particular the reads the block does outside its transaction (rate look-ups for the rolling averages go
	// through the connection pool): the first and the last one of every call site of every special block
	for _, b := range rm.Special {
		prof := rm.Profiles[b]
		first, last := map[string]int{}, map[string]int{}
		for _, st := range prof.Stmts {
			if st.InTx || st.Kind == "begin" || st.Kind == "commit" {
				continue
			}
			if _, ok := first[st.Stratum()]; !ok {
				first[st.Stratum()] = st.K
			}
			last[st.Stratum()] = st.K
		}
		seenK := map[int]bool{}
		for _, mp := range []map[string]int{first, last} {
			var sites []string
			for site := range mp {
				sites = append(sites, site)
			}
			sort.Strings(sites)
			for _, site := range sites {
				k := mp[site]
				if seenK[k] || k < 1 || k > len(prof.Stmts) {
					continue
				}
				seenK[k] = true
				pts = append(pts, point{b, k, false, false, prof.Stmts[k-1], prof.Label, true})
			}
		}
	}
	// ... and because factomd fails while the block's data is fetched
	for _, b := range rm.Special {
		for _, k := range []int{0, -1} {
			what := "dblock-by-height"
			if k == -1 {
				what = "raw-data"
			}
			pts = append(pts, point{b, k, false, false, StmtInfo{K: k, Kind: "upstream", SQL: what + " answered with a JSON-RPC error"}, rm.Profiles[b].Label, true})
		}
	}
	var crashJobs, verifyJobs []orch.Job
	for i, pt := range pts {
		dbp := filepath.Join(c.R.Scratch, fmt.Sprintf("c02-db-%d", i))
		cp, _ := json.Marshal(c02CrashParams{Dir: dir, Block: pt.b, K: pt.k, After: pt.after, WAL: pt.wal, DBPath: dbp, Fail: pt.fail})
		crashJobs = append(crashJobs, orch.Job{Kind: "c02.crash", Name: fmt.Sprintf("c02-crash-%d", i), Params: cp, Timeout: 300})
		vp, _ := json.Marshal(c02VerifyParams{Dir: dir, Block: pt.b, K: pt.k, After: pt.after, WAL: pt.wal, DBPath: dbp, Stmt: pt.st.Kind + " " + pt.st.SQL, Label: pt.label, Fail: pt.fail, Site: pt.st.Stratum()})
		verifyJobs = append(verifyJobs, orch.Job{Kind: "c02.verify", Name: fmt.Sprintf("c02-verify-%d", i), Params: vp, Timeout: 600})
	}
	// crash then verify each point (pipeline per point keeps disk use low)
	type pair struct{ crash, verify *orch.Result }
	results := make([]pair, len(pts))
	sem := make(chan struct{}, c.R.Parallel)
	done := make(chan int, len(pts))
	for i := range pts {
		go func(i int) {
			sem <- struct{}{}
			defer func() { <-sem; done <- i }()
			cr := c.R.RunOne(&crashJobs[i])
			results[i].crash = cr
			results[i].verify = c.R.RunOne(&verifyJobs[i])
			os.RemoveAll(crashJobs[i].Dir)
			os.RemoveAll(verifyJobs[i].Dir)
		}(i)
	}
	for range pts {
		<-done
	}
	killed, failRuns := 0, 0
	strata := map[string]bool{}
	var vr []*orch.Result
	for i, pr := range results {
		pt := pts[i]
		if pt.fail {
			failRuns++
			strata[fmt.Sprintf("%s|%s|fails", pt.label, pt.st.Stratum())] = true
			if pr.verify.Crashed {
				o.Inconclusive = append(o.Inconclusive, fmt.Sprintf("verifier for point %d crashed: %s", i, clipS(pr.verify.Stderr, 400)))
			}
			vr = append(vr, pr.verify)
			continue
		}
		if pr.crash.ExitCode == 137 || pr.crash.Crashed && pr.crash.Info["not_killed"] == nil {
			killed++
			when := "before"
			if pt.after {
				when = "after"
			}
			strata[fmt.Sprintf("%s|%s|%s|wal=%v", pt.label, pt.st.Stratum(), when, pt.wal)] = true
		}
		if pr.verify.Crashed {
			o.Inconclusive = append(o.Inconclusive, fmt.Sprintf("verifier for point %d crashed: %s", i, clipS(pr.verify.Stderr, 400)))
		}
		vr = append(vr, pr.verify)
	}
	o.Merge(vr)
	o.Evaluations = int64(len(pts))
	o.Nontrivial = int64(len(strata))
	o.Extra["crash_children_killed"] = killed
	o.Extra["crash_points_total_in_special_blocks"] = totalPoints
	o.Extra["special_blocks"] = len(rm.Special)
	o.Extra["verified_before_commit_point"] = orch.SumCounter(vr, "crashes_before_commit_point")
	o.Extra["verified_after_commit_point"] = orch.SumCounter(vr, "crashes_after_commit_point")
	o.Extra["resumes_compared"] = orch.SumCounter(vr, "resumes")
	var labels []string
	for _, b := range rm.Special {
		labels = append(labels, fmt.Sprintf("%d:%s(%d stmts)", b, rm.Profiles[b].Label, len(rm.Profiles[b].Stmts)))
	}
	o.Extra["blocks"] = labels
	if c.Thorough() {
		o.Exhaustive = true
		o.Extra["exhaustive_within"] = "every statement index × {before, after} × {rollback journal, WAL} of the listed special blocks of one rich chain"
	}
	o.Extra["block_failure_points"] = failRuns
	o.Extra["block_failure_points_verified"] = orch.SumCounter(vr, "block_failure_points_verified")
	if killed < (len(pts)-failRuns)*9/10 {
		o.Inconclusive = append(o.Inconclusive, fmt.Sprintf("only %d of %d crash children were killed at their crash point", killed, len(pts)-failRuns))
	}
	o.MinNontrivial = 30
	return o
}
