package checks

import (
	"os"
	"time"
	"fmt"
	"sort"
	"strings"
)

func clipS(s string, n int) string {
	if len(s) > n {
		return s[:n] + "…"
	}
	return s
}

func toStrMap(v interface{}) map[string]string {
	out := map[string]string{}
	switch m := v.(type) {
	case map[string]string:
		return m
	case map[string]interface{}:
		for k, x := range m {
			out[k] = fmt.Sprint(x)
		}
	}
	return out
}

func sortCSV(s string) string {
	parts := strings.Split(strings.Trim(s, ","), ",")
	sort.Strings(parts)
	return strings.Join(parts, ",")
}

func joinLines(l []string, max int) string {
	if len(l) > max {
		l = append(l[:max:max], fmt.Sprintf("… %d more", len(l)-max))
	}
	return strings.Join(l, "\n")
}

func os_remove(p string) { os.Remove(p) }

func min(a, b int) int {
	if a < b {
		return a
	}
	return b
}

func timeUnix(s int64) time.Time { return time.Unix(s, 0) }
