package checks

import (
	"fmt"
	"math/rand"

	"github.com/Factom-Asset-Tokens/factom"
	"github.com/pegnet/pegnetd/fat/fat2"
	"github.com/pegnet/pegnetd/node"
	"verif/lab/forge"
	"verif/lab/gen"
)

// Property-specific additions to the mixed workload. Each one schedules entries built from the
// committed state the generator sees (gen.View), so amounts can sit exactly at/around balances.

func init() {
	workloadFeatures["c03"] = featC03
	workloadFeatures["c07"] = featC07
	workloadFeatures["c13"] = featC13
	workloadFeatures["c16"] = featC16
	workloadFeatures["c14"] = featC14
	workloadFeatures["c11"] = featC11
	workloadFeatures["c12"] = featC12
	workloadFeatures["whale-exit"] = featWhaleExit
	workloadFeatures["c15"] = featC15
	workloadFeatures["avg-unavailable"] = featAvgUnavailable
	workloadFeatures["ungraded-snapshot"] = featUngradedSnapshot
	workloadFeatures["mint-key"] = featMintKey
	workloadFeatures["bank-mixed-conversion"] = featBankMixedConversion
	workloadFeatures["overflow-conversion"] = featOverflow
	workloadFeatures["spr-impostor"] = featImpostor
	workloadFeatures["oob-pre202"] = featOutOfBand
}

// featImpostor (tagged): one of the 25 staking records names a top holder's id but is signed by, and
// pays, somebody else (recorded finding: the id is not bound to the signing key).
func featImpostor(m *gen.Mixed, ts *gen.TieSetup, p *modelParams) {
	e := m.W.Eras
	foreign := forge.NewKey(fmt.Sprintf("impostor-%d", p.Seed))
	for _, h := range []uint32{e.SprSig + 3, e.V202 + 3} {
		h := h
		m.ForceGraded[h] = true
		m.Schedule(h, func(v *gen.View, s *forge.BlockSpec) {
			if len(s.SPR) < 25 {
				return
			}
			s.SPR = s.SPR[:25]
			victim := m.W.Miners[0]
			// the impostor takes the place of the victim's own record (or the last one)
			idx := 24
			s.SPR[idx] = forge.MakeSPR(forge.SPRParams{Version: e.SPRVersion(h), Height: h, Staker: victim.FA(), Signer: foreign, Payout: foreign.FA().String(), Assets: forge.PriceVector(5, m.W.Prices)})
		})
	}
}

// featOutOfBand (tagged): before 2.0.2 the OPR winner lies outside the SPR band (recorded finding:
// the daemon returns early and applies nothing of the block).
func featOutOfBand(m *gen.Mixed, ts *gen.TieSetup, p *modelParams) {
	e := m.W.Eras
	for _, h := range []uint32{e.V20 + 4, e.V20Dev + 4} {
		h := h
		if h%144 == 0 {
			h++
		}
		m.ForceGraded[h] = true
		m.Schedule(h, func(v *gen.View, s *forge.BlockSpec) {
			if len(s.SPR) < 25 || len(s.OPR) < 25 {
				return
			}
			sp := map[string]uint64{}
			for k, x := range m.W.Prices {
				sp[k] = x * 2
			}
			var st []forge.Key
			for _, a := range gen.TopPEG(v.Balances, 100) {
				for _, k := range m.Actors {
					if k.FA() == a && !k.IsEth() {
						st = append(st, k)
					}
				}
			}
			if len(st) > 30 {
				st = st[:30]
			}
			if len(st) >= 25 {
				s.SPR = m.W.StdSPRs(h, st, sp)
			}
		})
	}
}

// featOverflow (tagged): a conversion whose product does not fit int64 (recorded finding: it is
// dropped without effect, but its status stays "pending" forever).
func featOverflow(m *gen.Mixed, ts *gen.TieSetup, p *modelParams) {
	e := m.W.Eras
	m.W.Prices["UGX"] = 2700
	h := e.V20 + 5
	m.ForceGraded[h] = true
	m.ForceGraded[h+1] = true
	m.Schedule(h, func(v *gen.View, s *forge.BlockSpec) {
		m.W.Prices["UGX"] = 2700
		bal := v.Balances.Get(ts.Whale.FA(), fat2.PTickerUSD)
		if bal > 1e14 {
			s.Tx = append(s.Tx, forge.SignedBatch([]forge.Tx{forge.Conversion(ts.Whale.FA(), fat2.PTickerUSD, bal, fat2.PTickerUGX)}, m.W.EntryTime(h)+95, ts.Whale))
		}
	})
	m.Schedule(h+1, func(v *gen.View, s *forge.BlockSpec) { m.W.Prices["UGX"] = 2700 })
}

// featC15: the special addresses (both burn addresses, the mint address, the developer addresses)
// receive funds in several assets at several times, by transfer and as mining payout addresses.
func featC15(m *gen.Mixed, ts *gen.TieSetup, p *modelParams) {
	e := m.W.Eras
	rng := rand.New(rand.NewSource(p.Seed ^ 0xc15))
	special := []string{"FA1y5ZGuHSLmf2TqNf6hVMkPiNGyQpQDTFJvDLRkKQaoPo4bmbgu", "FA2BURNBABYBURNoooooooooooooooooooooooooooooooDGvNXy", "FA3j16WPCiqsAFHVZcEoL85Khh5RhPCNe6PWHBKgUxrx8MAnbNoy",
		"FA2i9WZqJnaKbJxDY2AZdVgewE28uCcSwoFt8LJCMtGCC7tpCa2n", "FA2a2nXgkBg7pL5wrgm99rLZDGFs2T8jfTgMuia6ep8ZMkVtPe8E"}
	tip := e.PIP10 + 60
	if p.Literal {
		tip = 295500
	}
	assets := []fat2.PTicker{fat2.PTickerUSD, fat2.PTickerEUR, fat2.PTickerXBT}
	for h := e.Pegnet + 1; h < tip; h++ {
		if p.Literal && !literalBusy(e, h) {
			continue
		}
		h := h
		m.Schedule(h, func(v *gen.View, s *forge.BlockSpec) {
			// a mining record that pays a special address
			if len(s.OPR) > 3 && rng.Intn(3) == 0 {
				ver := e.OPRVersion(h)
				s.OPR[len(s.OPR)-1] = m.W.OPR(h, ver, 900, m.W.Prices, special[rng.Intn(len(special))])
			}
			if h > e.TxConv+8 && rng.Intn(4) == 0 {
				to, _ := factom.NewFAAddress(special[rng.Intn(len(special))])
				t := assets[rng.Intn(len(assets))]
				if bal := v.Balances.Get(ts.Whale.FA(), t); bal > 1e8 {
					s.Tx = append(s.Tx, forge.SignedBatch([]forge.Tx{forge.Transfer(ts.Whale.FA(), t, 1e6+uint64(rng.Intn(1e8)), to)}, m.W.EntryTime(h)+90, ts.Whale))
				}
			}
		})
	}
	// a quiet payout height: nobody writes to the OPR or SPR chain in that block (miner and staker
	// outage); the developer reward is due by height alone. Even seeds: the first payout height from
	// 2.0.2 on; odd seeds: the first one from the developer-reward activation on.
	if !p.Literal && p.AlignV202 == 0 && !containsStr(p.Features, "align") {
		from := e.V202
		if p.Seed%2 == 1 {
			from = e.V20Dev
		}
		q := ((from + 143) / 144) * 144
		m.ForceEmpty[q] = true
		m.ForceGraded[q-1] = true
		m.ForceGraded[q+1] = true
	}
	// the whale keeps some pEUR and pXBT for the transfers above
	h0 := e.TxConv + 4
	m.ForceGraded[h0] = true
	m.ForceGraded[h0+1] = true
	m.Schedule(h0, func(v *gen.View, s *forge.BlockSpec) {
		s.Tx = append(s.Tx, forge.SignedBatch([]forge.Tx{forge.Conversion(ts.Whale.FA(), fat2.PTickerUSD, 50_000*1e8, fat2.PTickerXBT)}, m.W.EntryTime(h0)+91, ts.Whale))
		s.Tx = append(s.Tx, forge.SignedBatch([]forge.Tx{forge.Conversion(ts.Whale.FA(), fat2.PTickerUSD, 40_000*1e8, fat2.PTickerEUR)}, m.W.EntryTime(h0)+92, ts.Whale))
		s.Tx = append(s.Tx, forge.SignedBatch([]forge.Tx{forge.Conversion(ts.Whale.FA(), fat2.PTickerUSD, 30_000*1e8, fat2.PTickerJPY)}, m.W.EntryTime(h0)+93, ts.Whale))
	})
	// the mint address also holds assets that were never minted (pEUR, pJPY) and extra units of minted
	// ones when the minted supply is burned: the burn removes what remains of the minted amounts only
	if !p.Literal {
		mintA, _ := factom.NewFAAddress("FA3j16WPCiqsAFHVZcEoL85Khh5RhPCNe6PWHBKgUxrx8MAnbNoy")
		for i, hh := range []uint32{e.V204 - 3, e.V204 + 2, e.V204Burn - 2} {
			hh, i := hh, i
			m.ForceGraded[hh] = true
			m.Schedule(hh, func(v *gen.View, s *forge.BlockSpec) {
				t := []fat2.PTicker{fat2.PTickerEUR, fat2.PTickerJPY, fat2.PTickerEUR}[i]
				if v.Balances.Get(ts.Whale.FA(), t) > 100e8 {
					s.Tx = append(s.Tx, forge.SignedBatch([]forge.Tx{forge.Transfer(ts.Whale.FA(), t, uint64(7+i)*1e8, mintA)}, m.W.EntryTime(hh)+94, ts.Whale))
				}
			})
		}
	}
}

// literalBusy: in the literal-mainnet chain only the neighbourhoods of activations and some
// snapshot heights carry entries; the ~89 000 blocks in between are empty.
func literalBusy(e forge.Eras, h uint32) bool {
	if h <= e.Pegnet+40 {
		return true
	}
	for _, a := range []uint32{e.GradingV2, e.TxConv, e.PEGPricing, e.OneWaypFCT, e.ConversionLimit, e.V4, e.V20, e.V20Dev, e.V202, e.V204, e.V204Burn, e.PIP10} {
		if h+12 >= a && h <= a+8 {
			return true
		}
	}
	// snapshot heights around the 2.x activations, with their neighbours
	if h >= e.V20 {
		m := h % 144
		near := m <= 1 || m >= 142
		for _, a := range []uint32{e.V20, e.V20Dev, e.V202, e.V204, e.V204Burn, e.PIP10} {
			if near && h+300 >= a && h <= a+300 {
				return true
			}
		}
	}
	return false
}

// featWhaleExit: shortly before 2.0 the whale destroys what it still holds (transfers to the
// all-zero address are not credited before 2.0.2), so that holder stakes are decided by the others.
func featWhaleExit(m *gen.Mixed, ts *gen.TieSetup, p *modelParams) {
	e := m.W.Eras
	h := e.V20 - 4
	m.Schedule(h, func(v *gen.View, s *forge.BlockSpec) {
		a := ts.Whale.FA()
		i := 0
		for t := fat2.PTickerInvalid + 1; t < fat2.PTickerMax; t++ {
			if bal := v.Balances.Get(a, t); bal > 0 && t != fat2.PTickerPEG {
				s.Tx = append(s.Tx, forge.SignedBatch([]forge.Tx{forge.Transfer(a, t, bal, factom.FAAddress{})}, m.W.EntryTime(h)+int64(80+i), ts.Whale))
				i++
			}
		}
	})
}

func keys(label string, seed int64, n int) []forge.Key {
	var out []forge.Key
	for i := 0; i < n; i++ {
		out = append(out, forge.NewKey(fmt.Sprintf("%s-%d-%d", label, seed, i)))
	}
	return out
}

// fundMany schedules one whale transfer of pUSD to many addresses.
func fundMany(m *gen.Mixed, whale forge.Key, h uint32, ks []forge.Key, amount func(i int) uint64) {
	m.ForceGraded[h] = true
	m.Schedule(h, func(v *gen.View, s *forge.BlockSpec) {
		for start := 0; start < len(ks); start += 60 {
			end := start + 60
			if end > len(ks) {
				end = len(ks)
			}
			var outs []forge.Out
			var tot uint64
			for i := start; i < end; i++ {
				a := amount(i)
				outs = append(outs, forge.Out{Addr: ks[i].FA(), Amount: a})
				tot += a
			}
			s.Tx = append(s.Tx, forge.SignedBatch([]forge.Tx{{From: whale.FA(), Asset: fat2.PTickerUSD, Amount: tot, To: outs}}, m.W.EntryTime(h)+int64(20+start/60), whale))
		}
	})
}

// ---- C03: amounts at and around the available balance, several transactions on one balance
func featC03(m *gen.Mixed, ts *gen.TieSetup, p *modelParams) {
	e := m.W.Eras
	rng := rand.New(rand.NewSource(p.Seed ^ 0xc03))
	ks := keys("c03", p.Seed, 14)
	first := e.TxConv + 5
	fundMany(m, ts.Whale, first, ks, func(i int) uint64 { return uint64(1000+i) * 1e6 })
	sink := forge.NewKey(fmt.Sprintf("c03-sink-%d", p.Seed)).FA()
	tip := e.PIP10 + 60
	for h := first + 2; h < tip; h++ {
		h := h
		m.Schedule(h, func(v *gen.View, s *forge.BlockSpec) {
			for n := 0; n < 3; n++ {
				k := ks[rng.Intn(len(ks))]
				a := k.FA()
				bal := v.Balances.Get(a, fat2.PTickerUSD)
				if bal < 10 {
					continue
				}
				var txs []forge.Tx
				switch rng.Intn(13) {
				case 11: // outputs that add up to the input only modulo 2^64 (four of 2^62; amounts of 2^63 and more are C08's hostile numbers)
					x := bal / 2
					var outs []forge.Out
					for i := 0; i < 4; i++ { // four fresh recipients: nobody's balance leaves int64 even if the batch were executed
						outs = append(outs, forge.Out{Addr: forge.NewKey(fmt.Sprintf("c03-wrap-%d-%d-%d-%d", p.Seed, h, n, i)).FA(), Amount: 1 << 62})
					}
					outs = append(outs, forge.Out{Addr: sink, Amount: x})
					txs = []forge.Tx{{From: a, Asset: fat2.PTickerUSD, Amount: x, To: outs}}
				case 12: // the same with every single amount inside int64
					x := bal / 2
					txs = []forge.Tx{{From: a, Asset: fat2.PTickerUSD, Amount: x, To: []forge.Out{
						{Addr: forge.NewKey(fmt.Sprintf("c03-wrapb-%d-%d-%d-0", p.Seed, h, n)).FA(), Amount: 1<<63 - 1},
						{Addr: forge.NewKey(fmt.Sprintf("c03-wrapb-%d-%d-%d-1", p.Seed, h, n)).FA(), Amount: 1<<63 - 1}, {Addr: sink, Amount: x + 2}}}}
				case 0: // exactly the balance in two steps
					txs = []forge.Tx{forge.Transfer(a, fat2.PTickerUSD, bal-1, sink), forge.Transfer(a, fat2.PTickerUSD, 1, sink)}
				case 1: // one unit too many over two steps
					txs = []forge.Tx{forge.Transfer(a, fat2.PTickerUSD, bal, sink), forge.Transfer(a, fat2.PTickerUSD, 1, sink)}
				case 2: // credit to self, then spend everything
					txs = []forge.Tx{forge.Transfer(a, fat2.PTickerUSD, bal/2, a), forge.Transfer(a, fat2.PTickerUSD, bal, ks[rng.Intn(len(ks))].FA())}
				case 3: // balance + 1
					txs = []forge.Tx{forge.Transfer(a, fat2.PTickerUSD, bal+1, sink)}
				case 4: // exactly the balance to another test address
					txs = []forge.Tx{forge.Transfer(a, fat2.PTickerUSD, bal, ks[rng.Intn(len(ks))].FA())}
				case 5: // three draws whose sum is balance+1
					x := bal / 3
					txs = []forge.Tx{forge.Transfer(a, fat2.PTickerUSD, x, sink), forge.Transfer(a, fat2.PTickerUSD, x, sink), forge.Transfer(a, fat2.PTickerUSD, bal-2*x+1, sink)}
				case 6: // conversion of everything plus a transfer of 1 (over by one)
					txs = []forge.Tx{forge.Conversion(a, fat2.PTickerUSD, bal, fat2.PTickerEUR), forge.Transfer(a, fat2.PTickerUSD, 1, sink)}
				case 7: // conversion then spending the converted asset in the same batch
					eur := v.Balances.Get(a, fat2.PTickerEUR)
					txs = []forge.Tx{forge.Conversion(a, fat2.PTickerUSD, bal/2, fat2.PTickerEUR), forge.Transfer(a, fat2.PTickerEUR, eur+1, sink)}
				case 8: // zero amount and a huge amount
					txs = []forge.Tx{forge.Transfer(a, fat2.PTickerUSD, 0, sink), forge.Transfer(a, fat2.PTickerUSD, 1<<63-1, sink)}
				case 9: // many small draws that fit
					for i := 0; i < 6; i++ {
						txs = append(txs, forge.Transfer(a, fat2.PTickerUSD, bal/8, ks[rng.Intn(len(ks))].FA()))
					}
				case 10: // transfers and conversion mixed, total exactly the balance
					x := bal / 4
					txs = []forge.Tx{forge.Transfer(a, fat2.PTickerUSD, x, sink), forge.Conversion(a, fat2.PTickerUSD, x, fat2.PTickerXBT), forge.Transfer(a, fat2.PTickerUSD, bal-2*x, ks[rng.Intn(len(ks))].FA())}
				}
				if e.ConversionLimit <= h+3 && h < e.V20 {
					// bank era: keep PEG requests out of these batches (none are generated here anyway)
				}
				s.Tx = append(s.Tx, forge.SignedBatch(txs, m.W.EntryTime(h)+int64(30+n), k))
			}
		})
	}
}

// ---- C07: many conversions, all kinds of pairs and amounts, across rated / unrated blocks
func featC07(m *gen.Mixed, ts *gen.TieSetup, p *modelParams) {
	e := m.W.Eras
	rng := rand.New(rand.NewSource(p.Seed ^ 0xc07))
	ks := keys("c07", p.Seed, 24)
	first := e.TxConv + 5
	fundMany(m, ts.Whale, first, ks, func(i int) uint64 { return 20_000 * 1e8 })
	tip := e.PIP10 + 60
	amounts := []uint64{1, 2, 3, 7, 10, 99, 1000, 1e8, 123456789, 1e10, 5e11}
	// ungraded snapshot heights from 2.0.2 on (the snapshot code looks up older rates there) with conversions waiting
	for h := ((e.V202 + 143) / 144) * 144; h < tip; h += 144 {
		if rng.Intn(3) != 0 {
			delete(m.ForceGraded, h)
			m.ForceUngraded[h] = true
			m.ForceGraded[h-1] = rng.Intn(2) == 0
		}
	}
	// equal spot rates, different averages (seeded change M181): at a few averaging-era heights the records
	// quote pEUR, pGBP and pCAD at exactly the pUSD rate, while their windows still hold the ordinary
	// quotes — conversions between assets whose spot rates coincide still go through min/max with the average
	eqKs := keys("c07-eq", p.Seed, 4)
	fundMany(m, ts.Whale, first, eqKs, func(i int) uint64 { return 4_000 * 1e8 })
	m.Schedule(first+3, func(v *gen.View, s *forge.BlockSpec) {
		for i, k := range eqKs[:2] { // two of them hold pGBP / pCAD for the way back into pUSD
			if v.Balances.Get(k.FA(), fat2.PTickerUSD) > 2000e8 {
				s.Tx = append(s.Tx, forge.SignedBatch([]forge.Tx{forge.Conversion(k.FA(), fat2.PTickerUSD, 1500e8, []fat2.PTicker{fat2.PTickerGBP, fat2.PTickerCAD}[i])}, m.W.EntryTime(first+3)+int64(70+i), k))
			}
		}
	})
	for h := e.PIP10 + 34; h+2 < tip; h += 5 {
		h := h
		if m.ForceUngraded[h] || m.ForceUngraded[h-1] {
			continue
		}
		m.ForceGraded[h] = true
		m.Schedule(h-1, func(v *gen.View, s *forge.BlockSpec) {
			for i, k := range eqKs {
				a := k.FA()
				src, dst := fat2.PTickerUSD, []fat2.PTicker{fat2.PTickerEUR, fat2.PTickerGBP, fat2.PTickerCAD}[int(h+uint32(i))%3]
				if i < 2 && h%2 == 0 {
					src, dst = []fat2.PTicker{fat2.PTickerGBP, fat2.PTickerCAD}[i], []fat2.PTicker{fat2.PTickerUSD, fat2.PTickerEUR}[int(h/2)%2]
				}
				if bal := v.Balances.Get(a, src); bal > 20e8 {
					s.Tx = append(s.Tx, forge.SignedBatch([]forge.Tx{forge.Conversion(a, src, 10e8+uint64(h)+uint64(i), dst)}, m.W.EntryTime(h-1)+int64(80+i), k))
				}
			}
		})
		m.Schedule(h, func(v *gen.View, s *forge.BlockSpec) {
			if len(s.OPR) < 25 {
				return
			}
			sp := map[string]uint64{}
			for k, x := range m.W.Prices {
				sp[k] = x
			}
			sp["EUR"], sp["GBP"], sp["CAD"] = sp["USD"], sp["USD"], sp["USD"]
			s.OPR = m.W.StdOPRs(h, len(s.OPR), sp)
			if len(s.SPR) > 0 {
				var st []forge.Key
				for _, a := range gen.TopPEG(v.Balances, 100) {
					for _, k := range m.Actors {
						if k.FA() == a && !k.IsEth() {
							st = append(st, k)
						}
					}
				}
				if len(st) > 30 {
					st = st[:30]
				}
				s.SPR = m.W.StdSPRs(h, st, sp)
			}
		})
	}
	for h := first + 2; h < tip; h++ {
		h := h
		m.Schedule(h, func(v *gen.View, s *forge.BlockSpec) {
			cands := gen.AssetsAt(e, h)
			for n := 0; n < 5; n++ {
				k := ks[rng.Intn(len(ks))]
				a := k.FA()
				var held []fat2.PTicker
				for t, x := range v.Balances[a] {
					if x > 0 {
						held = append(held, t)
					}
				}
				if len(held) == 0 {
					continue
				}
				sortTickers(held)
				src := held[rng.Intn(len(held))]
				dst := cands[rng.Intn(len(cands))]
				if dst == src {
					continue
				}
				x := h + 1
				if (dst == fat2.PTickerFCT && x >= e.OneWaypFCT) || (dst == fat2.PTickerPEG && x+6 >= e.ConversionLimit) || ((gen.IsSmallCap(dst)) && x+6 >= e.OneWaySmall) {
					continue // closed destinations are C13's subject; PEG requests C16's
				}
				bal := v.Balances.Get(a, src)
				amt := amounts[rng.Intn(len(amounts))]
				switch rng.Intn(5) {
				case 0:
					amt = bal
				case 1:
					amt = bal/2 + 1
				}
				if amt > bal {
					amt = bal
				}
				if amt == 0 {
					continue
				}
				s.Tx = append(s.Tx, forge.SignedBatch([]forge.Tx{forge.Conversion(a, src, amt, dst)}, m.W.EntryTime(h)+int64(40+n), k))
			}
		})
	}
}

func sortTickers(l []fat2.PTicker) {
	for i := 1; i < len(l); i++ {
		for j := i; j > 0 && l[j] < l[j-1]; j-- {
			l[j], l[j-1] = l[j-1], l[j]
		}
	}
}

// ---- C13: destinations that close, submitted right before / at / after each activation
func featC13(m *gen.Mixed, ts *gen.TieSetup, p *modelParams) {
	e := m.W.Eras
	rng := rand.New(rand.NewSource(p.Seed ^ 0xc13))
	ks := keys("c13", p.Seed, 40)
	first := e.TxConv + 5
	fundMany(m, ts.Whale, first, ks, func(i int) uint64 { return 5_000 * 1e8 })
	dsts := []fat2.PTicker{fat2.PTickerFCT, fat2.PTickerPEG, fat2.PTickerDCR, fat2.PTickerRVN, fat2.PTickerDOGE, fat2.PTickerUGX, fat2.PTickerBAT, fat2.PTickerALGO,
		fat2.PTickerEUR, fat2.PTickerXBT, fat2.PTickerADA, fat2.PTickerAUD, fat2.PTickerNEO, fat2.PTickerHBAR, fat2.PTickerKES, fat2.PTickerETB}
	acts := []uint32{e.PEGPricing, e.OneWaypFCT, e.ConversionLimit, e.V4, e.V20, e.V20Dev, e.V202, e.V204, e.PIP10}
	if e.OneWaySmall != e.V202 {
		acts = append(acts, e.OneWaySmall)
	}
	ki := 0
	// a conversion into PEG entered in the last block(s) before 2.0 is executed at a 2.0 height, where it
	// is forbidden — also when the first 2.0 block has no rates and it is considered one block later
	skip20 := p.Seed%2 == 1 && e.V20%144 != 0
	for i, hh := range []uint32{e.V20 - 1, e.V20 - 1, e.V20} {
		hh, k, i := hh, forge.NewKey(fmt.Sprintf("c13-peg20-%d-%d", p.Seed, i)), i
		fundMany(m, ts.Whale, first+1, []forge.Key{k}, func(int) uint64 { return 500 * 1e8 })
		m.Schedule(hh, func(v *gen.View, s *forge.BlockSpec) {
			if v.Balances.Get(k.FA(), fat2.PTickerUSD) > 100e8 {
				s.Tx = append(s.Tx, forge.SignedBatch([]forge.Tx{forge.Conversion(k.FA(), fat2.PTickerUSD, 10e8+uint64(i), fat2.PTickerPEG)}, m.W.EntryTime(hh)+int64(40+i), k))
			}
		})
	}
	defer func() {
		if skip20 {
			delete(m.ForceGraded, e.V20)
			m.ForceUngraded[e.V20] = true
			m.ForceGraded[e.V20+1] = true
		}
		// the blocks AT the two one-way activations have no rates in half of the profiles: nothing is executed at the
		// activation height itself, the first conversions judged under the new rule execute one block later
		for _, a := range []uint32{e.OneWaypFCT, e.OneWaySmall} {
			if (p.Seed+int64(a))%2 == 0 && a%144 != 0 && a != e.V20 && a > first+3 {
				delete(m.ForceGraded, a)
				m.ForceUngraded[a] = true
				m.ForceGraded[a+1] = true
			}
		}
	}()
	for _, a := range acts {
		for d := -3; d <= 2; d++ {
			h := uint32(int(a) + d)
			if h <= first+1 {
				continue
			}
			m.ForceGraded[h] = true
			m.ForceGraded[h+1] = true
			hh := h
			m.Schedule(hh, func(v *gen.View, s *forge.BlockSpec) {
				have := gen.AssetsAt(e, hh)
				in := map[fat2.PTicker]bool{}
				for _, t := range have {
					in[t] = true
				}
				for n := 0; n < 7; n++ {
					dst := dsts[rng.Intn(len(dsts))]
					if !in[dst] {
						continue
					}
					if dst == fat2.PTickerPEG && hh+1 >= e.ConversionLimit && hh+1 < e.V20 && hh+1 < e.OneWaySmall {
						continue // bank-era PEG requests are C16's subject (unless PEG is already a one-way destination)
					}
					k := ks[ki%len(ks)]
					ki++
					bal := v.Balances.Get(k.FA(), fat2.PTickerUSD)
					if bal < 100 {
						continue
					}
					txs := []forge.Tx{forge.Conversion(k.FA(), fat2.PTickerUSD, 1e8+uint64(rng.Intn(1e6)), dst)}
					if n%3 == 2 && !(dst == fat2.PTickerPEG && hh+2 < e.PEGPricing) {
						// (destinations without a rate as a later transaction are one of C08's hostile kinds)
						// the destination under test is not the first transaction of its batch: every conversion of
						// a batch is subject to the admission rules, and one refusal refuses the batch
						txs = append([]forge.Tx{forge.Conversion(k.FA(), fat2.PTickerUSD, 2e7+uint64(rng.Intn(1e6)), fat2.PTickerEUR)}, txs...)
						if n == 5 {
							txs = append(txs, forge.Transfer(k.FA(), fat2.PTickerUSD, 1e6, ks[rng.Intn(len(ks))].FA()))
						}
					}
					s.Tx = append(s.Tx, forge.SignedBatch(txs, m.W.EntryTime(hh)+int64(50+n), k))
				}
			})
		}
	}
}

// featRank100Tie (C01 chains only; the one-step model declines rank-100 ties): one transfer pays the same amount
// of PEG to 100 addresses never seen before, which puts more than 100 holders on the ledger with a tie across
// rank 100. Which of them count as top-100 stakers is decided by the order their balance rows were created
// in, i.e. by the chain. Forty of them submit staking records in the following blocks.
func featRank100Tie(m *gen.Mixed, ts *gen.TieSetup, p *modelParams) {
	e := m.W.Eras
	var fresh []forge.Key
	for i := 0; i < 100; i++ {
		fresh = append(fresh, forge.NewKey(fmt.Sprintf("rank100-%d-%d", p.Seed, i)))
	}
	h0 := e.V20 + 6
	if h0%144 == 0 {
		h0++
	}
	m.ForceGraded[h0] = true
	m.Schedule(h0, func(v *gen.View, s *forge.BlockSpec) {
		// the richest PEG holder among the lab's actors pays
		var payer forge.Key
		var best uint64
		for _, k := range m.Actors {
			if b := v.Balances.Get(k.FA(), fat2.PTickerPEG); b > best && !k.IsEth() {
				payer, best = k, b
			}
		}
		if best < 200*1e8 {
			return
		}
		var outs []forge.Out
		for _, k := range fresh {
			outs = append(outs, forge.Out{Addr: k.FA(), Amount: 1e8})
		}
		s.Tx = append(s.Tx, forge.SignedBatch([]forge.Tx{{From: payer.FA(), Asset: fat2.PTickerPEG, Amount: 100 * 1e8, To: outs}}, m.W.EntryTime(h0)+150, payer))
	})
	for d := uint32(2); d <= 5; d++ {
		h := h0 + d
		if h%144 == 0 {
			continue
		}
		m.ForceGraded[h] = true
		m.Schedule(h, func(v *gen.View, s *forge.BlockSpec) {
			if v.Balances.Get(fresh[0].FA(), fat2.PTickerPEG) == 0 {
				return
			}
			var st []forge.Key
			for i := 0; i < 100; i += 3 { // every third newcomer, from both ends of the creation order
				st = append(st, fresh[i])
			}
			// only 20 records of established holders: at least five winners (25 are needed) must come from the
			// newcomers, i.e. from those of them that count as top-100 holders
			if len(s.SPR) > 20 {
				s.SPR = s.SPR[:20]
			}
			s.SPR = append(s.SPR, m.W.StdSPRs(h, st, m.W.Prices)...)
		})
	}
}

// mintKey is the key of the substituted mint address of the mint-key scenario.
func mintKey(seed int64) forge.Key { return forge.NewKey(fmt.Sprintf("mint-owner-%d", seed)) }

// featMintKey: the minted supply goes to an address whose key the lab holds (node.GlobalMintAddress is a
// package variable), and its owner spends: before the burn height, IN the burn block (a transfer, and a
// conversion entered one block earlier), and after it. The burn removes what is left of the minted amounts
// at the START of the burn block; what the owner tries to spend of them in that block is no longer there.
func featMintKey(m *gen.Mixed, ts *gen.TieSetup, p *modelParams) {
	e := m.W.Eras
	k := mintKey(p.Seed)
	sink := forge.NewKey(fmt.Sprintf("mint-sink-%d", p.Seed)).FA()
	for h := e.V204 - 1; h <= e.V204Burn+2; h++ {
		m.ForceGraded[h] = true
	}
	spend := func(h uint32, off int64, txs ...forge.Tx) {
		m.Schedule(h, func(v *gen.View, s *forge.BlockSpec) {
			s.Tx = append(s.Tx, forge.SignedBatch(txs, m.W.EntryTime(h)+off, k))
		})
	}
	spend(e.V204+1, 100, forge.Transfer(k.FA(), fat2.PTickerUSD, 1000*1e8, sink))
	spend(e.V204+2, 101, forge.Conversion(k.FA(), fat2.PTickerUSD, 500*1e8, fat2.PTickerEUR))
	spend(e.V204Burn-1, 102, forge.Conversion(k.FA(), fat2.PTickerXBT, 1e7, fat2.PTickerUSD)) // executes in the burn block
	spend(e.V204Burn, 103, forge.Transfer(k.FA(), fat2.PTickerUSD, 2000*1e8, sink))           // entered in the burn block
	spend(e.V204Burn, 104, forge.Transfer(k.FA(), fat2.PTickerEUR, 1*1e8, sink))              // never minted: still there
	spend(e.V204Burn+1, 105, forge.Transfer(k.FA(), fat2.PTickerUSD, 1*1e8, sink))
}

// featUngradedSnapshot: the first snapshot height from 2.0.2 on has too few records of either kind
// (no winners, no rates — the snapshot code looks older rates up for the payout there) while
// conversions are waiting; they must stay pending until the next block with rates.
func featUngradedSnapshot(m *gen.Mixed, ts *gen.TieSetup, p *modelParams) {
	e := m.W.Eras
	rng := rand.New(rand.NewSource(p.Seed ^ 0x5a9))
	h := ((e.V202 + 143) / 144) * 144
	ks := keys("ungsnap", p.Seed, 4)
	fundMany(m, ts.Whale, e.TxConv+7, ks, func(i int) uint64 { return 1_000 * 1e8 })
	delete(m.ForceGraded, h)
	m.ForceUngraded[h] = true
	m.ForceGraded[h+1] = true
	if rng.Intn(2) == 0 {
		m.ForceGraded[h-1] = true
	} else {
		delete(m.ForceGraded, h-1)
		m.ForceUngraded[h-1] = true
	}
	// and the snapshot heights between 2.0 and 2.0.2: without rates they borrow the rates of the block
	// before (seed%4 < 2) or, when that one has none either, are skipped altogether
	for q := ((e.V20 + 143) / 144) * 144; q < e.V202; q += 144 {
		delete(m.ForceGraded, q)
		m.ForceUngraded[q] = true
		m.ForceGraded[q+1] = true
		if p.Seed%4 < 2 {
			m.ForceGraded[q-1] = true
		} else {
			delete(m.ForceGraded, q-1)
			m.ForceUngraded[q-1] = true
		}
	}
	for i, d := range []uint32{2, 1, 1, 0} {
		hh, k, i := h-d, ks[i], i
		m.Schedule(hh, func(v *gen.View, s *forge.BlockSpec) {
			dst := []fat2.PTicker{fat2.PTickerEUR, fat2.PTickerXBT, fat2.PTickerJPY, fat2.PTickerXAU}[i]
			if v.Balances.Get(k.FA(), fat2.PTickerUSD) > 10e8 {
				s.Tx = append(s.Tx, forge.SignedBatch([]forge.Tx{forge.Conversion(k.FA(), fat2.PTickerUSD, 5e8+uint64(i), dst)}, m.W.EntryTime(hh)+int64(70+i), k))
			}
		})
	}
}

// featAvgUnavailable: after PIP-10 one asset (pXBT) is zeroed by the 25 % band for most of an
// averaging window and then comes back: its spot rate is non-zero but its average is unavailable, so
// conversions into it (source average available) and out of it must have no effect.
func featAvgUnavailable(m *gen.Mixed, ts *gen.TieSetup, p *modelParams) {
	e := m.W.Eras
	rng := rand.New(rand.NewSource(p.Seed ^ 0xa06))
	ks := keys("avgun", p.Seed, 6)
	fundMany(m, ts.Whale, e.TxConv+6, ks, func(i int) uint64 { return 3_000 * 1e8 })
	start := e.PIP10 + 14
	for h := start; h < start+9; h++ {
		h := h
		m.ForceGraded[h] = true
		m.Schedule(h, func(v *gen.View, s *forge.BlockSpec) {
			if len(s.SPR) < 25 || len(s.OPR) < 25 {
				return
			}
			sp := map[string]uint64{}
			for k, x := range m.W.Prices {
				sp[k] = x
			}
			sp["XBT"] = m.W.Prices["XBT"] * 2 // OPR far below the staking price: outside the band, rate recorded as 0
			var st []forge.Key
			for _, a := range gen.TopPEG(v.Balances, 100) {
				for _, k := range m.Actors {
					if k.FA() == a && !k.IsEth() {
						st = append(st, k)
					}
				}
			}
			if len(st) > 30 {
				st = st[:30]
			}
			if len(st) >= 25 {
				s.SPR = m.W.StdSPRs(h, st, sp)
			}
		})
	}
	for h := start + 8; h < start+16; h++ {
		h := h
		m.ForceGraded[h] = true
		m.ForceGraded[h+1] = true
		m.Schedule(h, func(v *gen.View, s *forge.BlockSpec) {
			k := ks[rng.Intn(len(ks))]
			if v.Balances.Get(k.FA(), fat2.PTickerUSD) > 2e8 {
				s.Tx = append(s.Tx, forge.SignedBatch([]forge.Tx{forge.Conversion(k.FA(), fat2.PTickerUSD, 1e8+uint64(rng.Intn(1e6)), fat2.PTickerXBT)}, m.W.EntryTime(h)+96, k))
			}
			// and one out of pXBT by somebody who holds some (the whale converted into pXBT early on in some profiles)
			if bal := v.Balances.Get(ts.Whale.FA(), fat2.PTickerXBT); bal > 1000 {
				s.Tx = append(s.Tx, forge.SignedBatch([]forge.Tx{forge.Conversion(ts.Whale.FA(), fat2.PTickerXBT, 1000, fat2.PTickerUSD)}, m.W.EntryTime(h)+97, ts.Whale))
			}
		})
	}
}

// ---- C16: PEG request sets of every size in the bank era
func featC16(m *gen.Mixed, ts *gen.TieSetup, p *modelParams) {
	e := m.W.Eras
	rng := rand.New(rand.NewSource(p.Seed ^ 0xc16))
	ks := keys("c16", p.Seed, 40)
	first := e.TxConv + 5
	fundMany(m, ts.Whale, first, ks, func(i int) uint64 { return 2_000 * 1e8 })
	for h := e.ConversionLimit - 1; h+2 < e.V20; h++ {
		h := h
		if rng.Intn(4) == 0 {
			m.ForceUngraded[h+1] = true // requests pile up over an ungraded block
		}
		m.Schedule(h, func(v *gen.View, s *forge.BlockSpec) {
			if m.ForceUngraded[h] && rng.Intn(2) == 0 {
				return
			}
			peg := v.LastRates[fat2.PTickerPEG]
			usd := v.LastRates[fat2.PTickerUSD]
			if peg == 0 || usd == 0 {
				return
			}
			n := []int{0, 1, 1, 2, 3, 5, 9, 17, 40}[rng.Intn(9)]
			// size requests around the bank: total ≈ bank-1 / bank / bank+1 / far below / far above
			mode := rng.Intn(6)
			bankUSD := uint64(5000) * 1e8 / usd * peg // pUSD worth of 5000 PEG (approximately)
			for i := 0; i < n; i++ {
				k := ks[rng.Intn(len(ks))]
				bal := v.Balances.Get(k.FA(), fat2.PTickerUSD)
				var amt uint64
				switch mode {
				case 0:
					amt = bankUSD/uint64(n) + uint64(rng.Intn(3))
				case 1:
					amt = bankUSD / uint64(n)
				case 2:
					amt = 3 * bankUSD / uint64(n)
				case 3:
					amt = bankUSD / uint64(4*n)
				case 4:
					amt = 7e8 // equal requests
				default:
					amt = 1 + uint64(rng.Int63n(int64(bankUSD)))
				}
				if amt == 0 || amt > bal {
					continue
				}
				s.Tx = append(s.Tx, forge.SignedBatch([]forge.Tx{forge.Conversion(k.FA(), fat2.PTickerUSD, amt, fat2.PTickerPEG)}, m.W.EntryTime(h)+int64(60+i), k))
			}
			// requests that are rejected when they are executed (they must take no part in the allocation):
			// the whole balance requested twice, one unit more than the balance, and funds moved away by a
			// transfer entered after the request
			switch rng.Intn(4) {
			case 0:
				k := ks[rng.Intn(len(ks))]
				if bal := v.Balances.Get(k.FA(), fat2.PTickerUSD); bal > 10 {
					for i := 0; i < 2; i++ {
						s.Tx = append(s.Tx, forge.SignedBatch([]forge.Tx{forge.Conversion(k.FA(), fat2.PTickerUSD, bal, fat2.PTickerPEG)}, m.W.EntryTime(h)+int64(110+i), k))
					}
				}
			case 1:
				k := ks[rng.Intn(len(ks))]
				if bal := v.Balances.Get(k.FA(), fat2.PTickerUSD); bal > 10 {
					s.Tx = append(s.Tx, forge.SignedBatch([]forge.Tx{forge.Conversion(k.FA(), fat2.PTickerUSD, bal+1, fat2.PTickerPEG)}, m.W.EntryTime(h)+112, k))
				}
			case 2:
				k := ks[rng.Intn(len(ks))]
				if bal := v.Balances.Get(k.FA(), fat2.PTickerUSD); bal > 10 {
					s.Tx = append(s.Tx, forge.SignedBatch([]forge.Tx{forge.Conversion(k.FA(), fat2.PTickerUSD, bal/2+1, fat2.PTickerPEG)}, m.W.EntryTime(h)+113, k))
					s.Tx = append(s.Tx, forge.SignedBatch([]forge.Tx{forge.Transfer(k.FA(), fat2.PTickerUSD, bal/2+1, ks[rng.Intn(len(ks))].FA())}, m.W.EntryTime(h)+114, k))
				}
			}
			// several PEG requests in ONE batch, with different amounts (each has its own yield and its own refund)
			if rng.Intn(3) == 0 {
				k := ks[rng.Intn(len(ks))]
				if bal := v.Balances.Get(k.FA(), fat2.PTickerUSD); bal > 1000 {
					a1 := 1 + uint64(rng.Int63n(int64(bal/8)))
					a2 := 1 + uint64(rng.Int63n(int64(bal/3)))
					txs := []forge.Tx{forge.Conversion(k.FA(), fat2.PTickerUSD, a1, fat2.PTickerPEG), forge.Conversion(k.FA(), fat2.PTickerUSD, a2, fat2.PTickerPEG)}
					if rng.Intn(2) == 0 {
						txs = append(txs, forge.Conversion(k.FA(), fat2.PTickerUSD, 1+a1/3, fat2.PTickerPEG))
					}
					s.Tx = append(s.Tx, forge.SignedBatch(txs, m.W.EntryTime(h)+119, k))
				}
			}
			// the largest amount requested several times, in different entries and at different positions of
			// multi-request batches: the dust goes to the lowest transaction id (entry hash first, index second)
			if rng.Intn(3) == 0 {
				x := bankUSD/2 + 7 + uint64(rng.Intn(1000))
				small := uint64(1000 + rng.Intn(5000))
				var who []forge.Key
				for _, k := range ks {
					if len(who) < 3 && v.Balances.Get(k.FA(), fat2.PTickerUSD) > x+2*small+10 {
						who = append(who, k)
					}
				}
				if len(who) == 3 {
					conv := func(k forge.Key, a uint64) forge.Tx { return forge.Conversion(k.FA(), fat2.PTickerUSD, a, fat2.PTickerPEG) }
					s.Tx = append(s.Tx, forge.SignedBatch([]forge.Tx{conv(who[0], small), conv(who[0], x)}, m.W.EntryTime(h)+121, who[0]))
					s.Tx = append(s.Tx, forge.SignedBatch([]forge.Tx{conv(who[1], x)}, m.W.EntryTime(h)+122, who[1]))
					s.Tx = append(s.Tx, forge.SignedBatch([]forge.Tx{conv(who[2], x), conv(who[2], small+1)}, m.W.EntryTime(h)+123, who[2]))
				}
			}
			// dust next to a request far above the bank: the share rounds down to 0 PEG while the refund of
			// the unfilled part is still due (and must be recorded)
			if rng.Intn(3) == 0 {
				if bal := v.Balances.Get(ts.Whale.FA(), fat2.PTickerUSD); bal > 200*bankUSD {
					big := 200_000 * bankUSD // so far above the bank that a request of a few units is allotted 0 PEG
					if big > bal/2 {
						big = bal / 2
					}
					s.Tx = append(s.Tx, forge.SignedBatch([]forge.Tx{forge.Conversion(ts.Whale.FA(), fat2.PTickerUSD, big, fat2.PTickerPEG)}, m.W.EntryTime(h)+115, ts.Whale))
					for i := 0; i < 3; i++ {
						k := ks[rng.Intn(len(ks))]
						if v.Balances.Get(k.FA(), fat2.PTickerUSD) > 1000 {
							s.Tx = append(s.Tx, forge.SignedBatch([]forge.Tx{forge.Conversion(k.FA(), fat2.PTickerUSD, uint64(3+rng.Intn(60)), fat2.PTickerPEG)}, m.W.EntryTime(h)+int64(116+i), k))
						}
					}
				}
			}
		})
	}
}

// ---- C14: holder distributions around the cap, movements between snapshots
func featC14(m *gen.Mixed, ts *gen.TieSetup, p *modelParams) {
	e := m.W.Eras
	rng := rand.New(rand.NewSource(p.Seed ^ 0xc14))
	nh := []int{8, 40, 120, 300}[rng.Intn(4)]
	ks := keys("c14", p.Seed, nh)
	first := e.TxConv + 5
	// choose the total stake relative to the cap (648 000 pUSD): the tie groups of AddTies hold 1 004 000 pUSD
	// already (above the cap), so "below" profiles are produced by the run without them (see below)
	var per uint64
	switch p.Seed % 3 {
	case 0:
		per = 100 * 1e8
	case 1:
		per = (648_000 * 1e8) / uint64(nh)
	default:
		per = 3 * (648_000 * 1e8) / uint64(nh)
	}
	fundMany(m, ts.Whale, first, ks, func(i int) uint64 { return per + uint64(i%7) })
	// three holders tied for the TOP stake (the dust of an oversubscribed payout goes to one of them, by rule)
	topKs := keys("c14-top", p.Seed, 3)
	if p.Seed%3 != 0 {
		fundMany(m, ts.Whale, first+1, topKs, func(i int) uint64 { return 5_000_000 * 1e8 })
	}
	firstSnap := ((e.V20 + 143) / 144) * 144
	sink := forge.NewKey(fmt.Sprintf("c14-sink-%d", p.Seed)).FA()
	// some holders spread their stake over several assets (pXBT, pETH, pJPY besides pUSD) ...
	multi := ks
	if len(multi) > 6 {
		multi = multi[:6]
	}
	m.ForceGraded[first+3] = true
	m.ForceGraded[first+4] = true
	m.Schedule(first+3, func(v *gen.View, s *forge.BlockSpec) {
		for i, k := range multi {
			bal := v.Balances.Get(k.FA(), fat2.PTickerUSD)
			if bal < 1000 {
				continue
			}
			txs := []forge.Tx{forge.Conversion(k.FA(), fat2.PTickerUSD, bal/4, fat2.PTickerXBT), forge.Conversion(k.FA(), fat2.PTickerUSD, bal/4, fat2.PTickerETH)}
			if i%2 == 0 {
				txs = append(txs, forge.Conversion(k.FA(), fat2.PTickerUSD, bal/5, fat2.PTickerJPY))
			}
			s.Tx = append(s.Tx, forge.SignedBatch(txs, m.W.EntryTime(first+3)+int64(75+i), k))
		}
	})
	// ... and at every other snapshot height from 2.0.2 on one of those assets (pXBT) has no price: the
	// staking records put it far from the mining records, the 25 % band records its rate as 0. The
	// unpriced asset counts for nothing; every priced one still counts, whatever its position in the list.
	for s0, n := ((e.V202+143)/144)*144, 0; s0 < firstSnap+144*4; s0, n = s0+144, n+1 {
		if (n%2 == 1) != containsStr(p.Features, "ungraded-snapshot") {
			continue // (profiles with the ungraded-snapshot feature have no rates at all at the first of these heights)
		}
		s0 := s0
		m.ForceGraded[s0] = true
		m.Schedule(s0, func(v *gen.View, s *forge.BlockSpec) {
			if len(s.SPR) < 25 || len(s.OPR) < 25 {
				return
			}
			sp := map[string]uint64{}
			for k, x := range m.W.Prices {
				sp[k] = x
			}
			sp["XBT"] = m.W.Prices["XBT"] * 2
			var st []forge.Key
			for _, a := range gen.TopPEG(v.Balances, 100) {
				for _, k := range m.Actors {
					if k.FA() == a && !k.IsEth() {
						st = append(st, k)
					}
				}
			}
			if len(st) > 30 {
				st = st[:30]
			}
			if len(st) >= 25 {
				s.SPR = m.W.StdSPRs(s0, st, sp)
			}
		})
	}
	// an address that holds a stake at one snapshot, is emptied COMPLETELY (every asset, its PEG too) before the
	// next one, and is refilled before the one after: at that third snapshot it has no previous balance to
	// take the minimum with and earns nothing
	{
		ek := forge.NewKey(fmt.Sprintf("c14-emptied-%d", p.Seed))
		rk := forge.NewKey(fmt.Sprintf("c14-refiller-%d", p.Seed)) // (the whale may have left by then)
		fundMany(m, ts.Whale, first+2, []forge.Key{ek, rk}, func(int) uint64 { return per*2 + 12345 })
		s1 := firstSnap + 144
		m.ForceGraded[s1+5], m.ForceGraded[s1+6], m.ForceGraded[s1+144+5] = true, true, true
		m.Schedule(s1+5, func(v *gen.View, s *forge.BlockSpec) {
			n := 0
			for t := fat2.PTickerInvalid + 1; t < fat2.PTickerMax; t++ {
				if bal := v.Balances.Get(ek.FA(), t); bal > 0 {
					s.Tx = append(s.Tx, forge.SignedBatch([]forge.Tx{forge.Transfer(ek.FA(), t, bal, sink)}, m.W.EntryTime(s1+5)+int64(130+n), ek))
					n++
				}
			}
		})
		m.Schedule(s1+144+5, func(v *gen.View, s *forge.BlockSpec) {
			s.Tx = append(s.Tx, forge.SignedBatch([]forge.Tx{forge.Transfer(rk.FA(), fat2.PTickerUSD, per+777, ek.FA())}, m.W.EntryTime(s1+144+5)+140, rk))
		})
	}
	// movements between snapshots: out, in, round trip, new arrival
	for s0 := firstSnap; s0 < firstSnap+144*4; s0 += 144 { // (the chain runs a little past the fourth snapshot after the first)
		for i := 0; i < 6 && i < len(ks); i++ {
			k := ks[rng.Intn(len(ks))]
			h := s0 + uint32(10+rng.Intn(100))
			switch rng.Intn(3) {
			case 0: // funds leave before the next snapshot
				m.Schedule(h, func(v *gen.View, s *forge.BlockSpec) {
					bal := v.Balances.Get(k.FA(), fat2.PTickerUSD)
					if bal > 2 {
						s.Tx = append(s.Tx, forge.SignedBatch([]forge.Tx{forge.Transfer(k.FA(), fat2.PTickerUSD, bal/2, sink)}, m.W.EntryTime(h)+70, k))
					}
				})
			case 1: // funds arrive after the previous snapshot (must not earn at the next one)
				m.Schedule(h, func(v *gen.View, s *forge.BlockSpec) {
					s.Tx = append(s.Tx, forge.SignedBatch([]forge.Tx{forge.Transfer(ts.Whale.FA(), fat2.PTickerUSD, 1234*1e8, k.FA())}, m.W.EntryTime(h)+71, ts.Whale))
				})
			case 2: // round trip: out and back in between two snapshots
				m.Schedule(h, func(v *gen.View, s *forge.BlockSpec) {
					bal := v.Balances.Get(k.FA(), fat2.PTickerUSD)
					if bal > 2 {
						s.Tx = append(s.Tx, forge.SignedBatch([]forge.Tx{forge.Transfer(k.FA(), fat2.PTickerUSD, bal-1, sink)}, m.W.EntryTime(h)+72, k))
					}
				})
				m.Schedule(h+3, func(v *gen.View, s *forge.BlockSpec) {
					s.Tx = append(s.Tx, forge.SignedBatch([]forge.Tx{forge.Transfer(ts.Whale.FA(), fat2.PTickerUSD, per, k.FA())}, m.W.EntryTime(h+3)+73, ts.Whale))
				})
			}
		}
		// a brand new address between snapshots
		nk := forge.NewKey(fmt.Sprintf("c14-new-%d-%d", p.Seed, s0))
		hh := s0 + 50
		m.Schedule(hh, func(v *gen.View, s *forge.BlockSpec) {
			s.Tx = append(s.Tx, forge.SignedBatch([]forge.Tx{forge.Transfer(ts.Whale.FA(), fat2.PTickerUSD, 999*1e8, nk.FA())}, m.W.EntryTime(hh)+74, ts.Whale))
		})
	}
	_ = sink
}

// ---- C11: record sets of every shape; factoid near-misses
func featC11(m *gen.Mixed, ts *gen.TieSetup, p *modelParams) {
	e := m.W.Eras
	rng := rand.New(rand.NewSource(p.Seed ^ 0xc11))
	tip := e.PIP10 + 60
	for h := e.Pegnet + 1; h < tip; h++ {
		h := h
		m.Schedule(h, func(v *gen.View, s *forge.BlockSpec) {
			w := m.W
			ver := e.OPRVersion(h)
			if h < e.V20 && h > e.TxConv+6 && (int64(h)+p.Seed)%5 == 0 {
				// well-formed staking records of current PEG holders BEFORE staking exists: third parties can
				// write to the staking chain at any time; before 2.0 its records earn nothing
				var st []forge.Key
				for _, a := range gen.TopPEG(v.Balances, 100) {
					for _, k := range m.Actors {
						if k.FA() == a && !k.IsEth() {
							st = append(st, k)
						}
					}
				}
				if len(st) > 30 {
					st = st[:30]
				}
				if len(st) >= 25 {
					s.SPR = append(s.SPR, w.StdSPRs(h, st, w.Prices)...)
				}
			}
			if ver == 1 && len(s.OPR) >= 10 {
				// V1 grading does not look at the payout address: two records naming something that is not an
				// address, with enough proof of work to rank first and second among equally good records.
				// They are winners and are paid nothing; every other winner keeps its own rank, reward and row.
				for ri, bad := range []string{"not-an-address", ""} {
					var best forge.Entry
					var bestD uint64
					for idx := 5000 + 200*ri; idx < 5200+200*ri; idx++ {
						en := w.OPR(h, ver, idx, w.Prices, bad)
						x := en.ExtIDs()
						if len(x) < 2 || len(x[1]) != 8 {
							continue
						}
						var d uint64
						for _, b := range x[1] {
							d = d<<8 | uint64(b)
						}
						if d >= bestD {
							best, bestD = en, d
						}
					}
					if bestD > 0 {
						s.OPR = append(s.OPR, best)
					}
				}
			}
			if ver == 1 && (h-e.Pegnet)%2 == 0 && len(s.OPR) > 24 {
				// the first grading version has 10 winners, every later one 25: a block with 10..24 records is a
				// paying block there and an unrated one ever after
				s.OPR = s.OPR[:10+rng.Intn(15)]
			}
			switch rng.Intn(10) {
			case 8: // staking records whose staker id is not a 32-byte address: a holder's address with a
				// trailing byte, cut short by one byte, or empty — signed by that holder, valid otherwise.
				// Half the time the properly named records are cut to one short of the winner count, so
				// that counting the odd ones turns a block without staking winners into a paying one.
				if h >= e.V20 && len(s.SPR) >= 25 && !(h%144 == 0) && !m.ForceGraded[h] {
					var holders []forge.Key
					for _, a := range gen.TopPEG(v.Balances, 100) {
						for _, k := range m.Actors {
							if k.FA() == a && !k.IsEth() {
								holders = append(holders, k)
							}
						}
					}
					if len(holders) >= 3 {
						if rng.Intn(2) == 0 {
							s.SPR = s.SPR[:24]
						}
						for i, k := range holders[len(holders)-3:] {
							a := k.FA()
							id := append(append([]byte{}, a[:]...), 0x01)
							switch i {
							case 1:
								id = append([]byte{}, a[:31]...)
							case 2:
								id = []byte{}
							}
							std := forge.MakeSPR(forge.SPRParams{Version: e.SPRVersion(h), Height: h, Staker: a, Signer: k, Payout: k.FA().String(), Assets: forge.PriceVector(5, w.Prices)})
							ext := std.ExtIDs()
							ext[1] = id
							s.SPR = append(s.SPR, forge.MakeSPR(forge.SPRParams{Version: e.SPRVersion(h), Height: h, Staker: a, Signer: k, Payout: k.FA().String(), Assets: forge.PriceVector(5, w.Prices), RawExtIDs: ext}))
						}
					}
				}
			case 9: // a staker id that occurs more than once in the block, the record that counts not being the first:
				// a junk record (broken signature) naming a holder in front of that holder's own record, and a holder
				// with two valid records paying two different addresses
				if h >= e.V20 && len(s.SPR) >= 25 {
					var holders []forge.Key
					for _, a := range gen.TopPEG(v.Balances, 100) {
						for _, k := range m.Actors {
							if k.FA() == a && !k.IsEth() {
								holders = append(holders, k)
							}
						}
					}
					if len(holders) >= 4 {
						k0, k1 := holders[0], holders[1]
						junk := forge.MakeSPR(forge.SPRParams{Version: e.SPRVersion(h), Height: h, Staker: k0.FA(), Signer: k0, Payout: k0.FA().String(), Assets: forge.PriceVector(5, w.Prices), BadSig: true})
						other := forge.NewKey(fmt.Sprintf("c11-second-payout-%d-%d", p.Seed, h))
						second := forge.MakeSPR(forge.SPRParams{Version: e.SPRVersion(h), Height: h, Staker: k1.FA(), Signer: k1, Payout: other.FA().String(), Assets: forge.PriceVector(5, w.Prices)})
						s.SPR = append([]forge.Entry{junk, second}, s.SPR...)
					}
				}
			case 0: // exactly the winner count
				if len(s.OPR) > forge.WinnerCount(ver) {
					s.OPR = s.OPR[:forge.WinnerCount(ver)]
				}
			case 1: // one short of the winner count
				if len(s.OPR) >= forge.WinnerCount(ver) && !(h >= e.V20 && h%144 == 0 && h < e.V202) && !m.ForceGraded[h] {
					s.OPR = s.OPR[:forge.WinnerCount(ver)-1]
				}
			case 2: // many more records than the cutoff of 50
				for i := 0; i < 35; i++ {
					s.OPR = append(s.OPR, w.OPR(h, ver, 100+i, w.Prices, w.Miners[i%len(w.Miners)].FA().String()))
				}
			case 3: // records of the neighbouring versions mixed in
				for _, dv := range []int{-1, 1} {
					v2 := int(ver) + dv
					if v2 >= 1 && v2 <= 5 {
						for i := 0; i < 12; i++ {
							s.OPR = append(s.OPR, w.OPR(h, uint8(v2), 200+i, w.Prices, w.Miners[i%len(w.Miners)].FA().String()))
						}
					}
				}
			case 4: // duplicates and outliers
				if len(s.OPR) > 2 {
					s.OPR = append(s.OPR, s.OPR[0], s.OPR[1])
				}
				pr := map[string]uint64{}
				for k2, v2 := range w.Prices {
					pr[k2] = v2 * 2
				}
				for i := 0; i < 4; i++ {
					s.OPR = append(s.OPR, w.OPR(h, ver, 300+i, pr, w.Miners[i].FA().String()))
				}
			case 5: // payout addresses that cannot be parsed (accepted by the V1 grader only)
				s.OPR = append(s.OPR, w.OPR(h, ver, 400, w.Prices, "not-an-address"), w.OPR(h, ver, 401, w.Prices, ""))
			case 6: // staking records from addresses that hold no PEG
				if h >= e.V20 {
					for i := 0; i < 26; i++ {
						k := forge.NewKey(fmt.Sprintf("c11-nonholder-%d", i))
						s.SPR = append(s.SPR, w.StdSPRs(h, []forge.Key{k}, w.Prices)...)
					}
				}
			case 7: // staking records with a broken signature / wrong version
				if h >= e.V20 && len(w.Miners) > 3 {
					for i := 0; i < 3; i++ {
						k := w.Miners[i]
						s.SPR = append(s.SPR, forge.MakeSPR(forge.SPRParams{Version: e.SPRVersion(h), Height: h, Staker: k.FA(), Signer: k, Payout: k.FA().String(), Assets: forge.PriceVector(5, w.Prices), BadSig: true}))
						bad := e.SPRVersion(h) + 1
						s.SPR = append(s.SPR, forge.MakeSPR(forge.SPRParams{Version: e.SPRVersion(h), ExtVersion: &bad, Height: h, Staker: k.FA(), Signer: k, Payout: k.FA().String(), Assets: forge.PriceVector(5, w.Prices)}))
					}
				}
			}
			// factoid near-misses and real burns
			k := m.Users[rng.Intn(len(m.Users))].FA()
			t0 := m.W.Time(h).Unix() * 1000
			other := [32]byte{9, 9, 9}
			switch rng.Intn(6) {
			case 0: // two inputs
				t := forge.BurnTx(k, 5e8, t0+200, node.BurnRCD)
				t.Inputs = append(t.Inputs, forge.FIO{Amount: 3e8, Address: factom.Bytes32(m.Users[0].FA())})
				s.FTxs = append(s.FTxs, t)
			case 1: // an FCT output besides the EC output
				t := forge.BurnTx(k, 5e8, t0+201, node.BurnRCD)
				t.Outputs = []forge.FIO{{Amount: 1e8, Address: factom.Bytes32(m.Users[0].FA())}}
				s.FTxs = append(s.FTxs, t)
			case 2: // EC output to another EC address
				s.FTxs = append(s.FTxs, forge.BurnTx(k, 5e8, t0+202, other))
			case 3: // two EC outputs
				t := forge.BurnTx(k, 5e8, t0+203, node.BurnRCD)
				t.ECOuts = append(t.ECOuts, forge.FIO{Amount: 0, Address: factom.Bytes32(other)})
				s.FTxs = append(s.FTxs, t)
			case 4: // the same burner twice in one block
				s.FTxs = append(s.FTxs, forge.BurnTx(k, 11e8, t0+204, node.BurnRCD), forge.BurnTx(k, 12e8, t0+205, node.BurnRCD))
			}
		})
	}
}

// ---- C12: OPR and SPR winners that disagree: inside, on the edge of, and outside the band
func featC12(m *gen.Mixed, ts *gen.TieSetup, p *modelParams) {
	e := m.W.Eras
	rng := rand.New(rand.NewSource(p.Seed ^ 0xc12))
	tip := e.PIP10 + 60
	for h := e.V20; h < tip; h++ {
		h := h
		m.Schedule(h, func(v *gen.View, s *forge.BlockSpec) {
			if len(s.SPR) < 25 || len(s.OPR) < 25 {
				return
			}
			switch rng.Intn(12) {
			case 0: // an OPR entry block without winners (too few records) next to winning staking records: rates come from the SPR alone
				if !(h%144 == 0) {
					s.OPR = s.OPR[:3+rng.Intn(5)]
					return
				}
			case 1: // the reverse: winning OPRs, a staking entry block with too few records
				s.SPR = s.SPR[:1+rng.Intn(20)]
				return
			}
			var pct float64
			switch {
			case h < e.V20Dev:
				pct = 0.01
			case h < e.V202:
				pct = 0.1
			default:
				pct = 0.25
			}
			// rebuild the staking records with prices shifted against the OPR prices
			sp := map[string]uint64{}
			names := forge.AssetNames(5)
			mode := rng.Intn(6)
			for _, n := range names {
				o := m.W.Prices[n]
				sv := o
				pct := pct
				if h < e.V20Dev {
					// 1 % band, 0.1 % for staking values of 100000 and more; stay clear of the switch-over
					if o >= 400000 {
						pct = 0.001
					} else if o > 50000 {
						sp[n] = o
						continue
					}
				}
				switch mode {
				case 0: // identical
				case 1: // well inside
					sv = uint64(float64(o) / (1 + pct/2))
				case 2: // OPR exactly on the upper edge where that is exact (25 %: multiples of 4)
					if pct == 0.25 {
						sv = (o / 5) * 4 // o = sv*1.25 when o is a multiple of 5
					}
				case 3: // a few assets outside the band (only where the rule zeroes the asset instead of failing the block)
					if h >= e.V202 && rng.Intn(6) == 0 {
						sv = o * 2
					}
				case 4: // OPR well below SPR but inside
					sv = uint64(float64(o) * (1 + pct/3))
				case 5: // one unit inside / outside the edge
					if h >= e.V202 {
						lim := uint64(float64(o) / (1 + pct))
						if rng.Intn(2) == 0 {
							sv = lim + 2
						} else if lim > 3 && rng.Intn(5) == 0 {
							sv = lim - 2
						}
					}
				}
				if sv == 0 {
					sv = 1
				}
				sp[n] = sv
			}
			if mode == 2 && pct == 0.25 {
				// make the OPR side a multiple of 5 so that the edge is exact
				return
			}
			var st []forge.Key
			top := gen.TopPEG(v.Balances, 100)
			for _, a := range top {
				for _, k := range m.Actors {
					if k.FA() == a && !k.IsEth() {
						st = append(st, k)
					}
				}
			}
			if len(st) > 30 {
				st = st[:30]
			}
			if len(st) >= 25 {
				s.SPR = m.W.StdSPRs(h, st, sp)
			}
		})
	}
}

// featBankMixedConversion (tagged): a bank-era batch with a PEG request and another conversion
// (recorded finding: the bank payout loop pays the other conversion a second time).
func featBankMixedConversion(m *gen.Mixed, ts *gen.TieSetup, p *modelParams) {
	e := m.W.Eras
	k := forge.NewKey(fmt.Sprintf("bankmixed-%d", p.Seed))
	fundMany(m, ts.Whale, e.TxConv+6, []forge.Key{k}, func(i int) uint64 { return 1_000 * 1e8 })
	for _, h := range []uint32{e.ConversionLimit + 4, e.V4 + 4} {
		h := h
		if h+3 >= e.V20 {
			continue
		}
		m.ForceGraded[h] = true
		m.ForceGraded[h+1] = true
		m.Schedule(h, func(v *gen.View, s *forge.BlockSpec) {
			s.Tx = append(s.Tx, forge.SignedBatch([]forge.Tx{forge.Conversion(k.FA(), fat2.PTickerUSD, 5*1e8, fat2.PTickerPEG), forge.Conversion(k.FA(), fat2.PTickerUSD, 7*1e8, fat2.PTickerEUR)}, m.W.EntryTime(h)+98, k))
		})
	}
}
