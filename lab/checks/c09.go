package checks

import (
	"database/sql"
	"encoding/json"
	"fmt"
	"math/big"
	"math/rand"
	"path/filepath"
	"sort"

	"verif/lab/forge"
	"verif/lab/gen"
	"verif/lab/harness"
	"verif/lab/orch"
)

// C09 Restart independence — metamorphic: continuous run vs runs with clean stop/start at block
// boundaries, on chains with ungraded blocks inside the (shortened) averaging window and
// conversions priced by the rolling average.

const c09Window = 12

type c09Params struct {
	Seed     int64      `json:"seed"`
	Gaps     []int      `json:"gaps"`     // offsets (from the end of warm-up) of ungraded blocks
	Restarts [][]int    `json:"restarts"` // restart sets, offsets from the end of warm-up
	Span     int        `json:"span"`
	Window   uint64     `json:"window"`
}

func init() {
	registry["C09"] = checkC09
	orch.Register("c09.case", c09Case)
}

// LateEras packs every activation into the first blocks so that the whole chain runs under the
// final rule set (PIP-10 included).
func LateEras(base uint32) forge.Eras {
	return forge.ErasCompressed(base, [16]uint32{1, 1, 1, 1, 1, 1, 2, 2, 2, 1, 1, 2})
}

// bindingConversions counts, per executed height, conversions whose credited amount differs from
// the spot-rate amount (i.e. the average decided the price).
func bindingConversions(db *sql.DB) (map[uint32]int, int, error) {
	rows, err := db.Query(`SELECT b.executed, t.from_asset, t.from_amount, t.to_asset, t.to_amount FROM pn_history_transaction t
		JOIN pn_history_txbatch b ON b.entry_hash = t.entry_hash WHERE t.action_type = 2 AND b.executed > 0`)
	if err != nil {
		return nil, 0, err
	}
	defer rows.Close()
	type conv struct {
		x        uint32
		fa, ta   string
		fam, tam int64
	}
	var cs []conv
	for rows.Next() {
		var c conv
		if err := rows.Scan(&c.x, &c.fa, &c.fam, &c.ta, &c.tam); err != nil {
			return nil, 0, err
		}
		cs = append(cs, c)
	}
	out := map[uint32]int{}
	total := 0
	cache := map[uint32]map[string]uint64{}
	for _, c := range cs {
		r, ok := cache[c.x]
		if !ok {
			r, err = harness.ReadRates(db, c.x)
			if err != nil {
				return nil, 0, err
			}
			cache[c.x] = r
		}
		total++
		if r[c.fa] == 0 || r[c.ta] == 0 {
			continue
		}
		spot := new(big.Int).Mul(big.NewInt(c.fam), new(big.Int).SetUint64(r[c.fa]))
		spot.Div(spot, new(big.Int).SetUint64(r[c.ta]))
		if spot.Int64() != c.tam {
			out[c.x]++
		}
	}
	return out, total, nil
}

func c09Case(j *orch.Job, r *orch.Result) error {
	var p c09Params
	json.Unmarshal(j.Params, &p)
	base := uint32(1070)
	e := LateEras(base)
	warm := e.PIP10 + uint32(p.Window) + 2
	tip := warm + uint32(p.Span)
	mo := gen.DefaultMixedOpts()
	mo.UngradedProb, mo.NoOPRProb = 0, 0
	mo.TxPerBlock = 8
	mo.OverdrawProb = 0.03
	mo.ForbiddenProb = 0.02
	mo.BurnProb = 0.9
	gapsAbs := []uint32{}
	_, meta, ref, err := ForgeChain(ForgeOpts{Profile: "c09", Seed: p.Seed, Eras: e, Upto: tip, ShortAvg: p.Window, Mixed: &mo, Dir: j.Dir, KeepDB: true,
		PerHeight: true, PerHeightOnly: heightsFrom(warm, tip), Checkpoints: map[uint32]bool{warm: true},
		Customize: func(m *gen.Mixed) {
			for h := base + 1; h <= tip; h++ {
				m.ForceGraded[h] = true
			}
			for _, g := range p.Gaps {
				h := warm + uint32(g)
				delete(m.ForceGraded, h)
				m.ForceUngraded[h] = true
				gapsAbs = append(gapsAbs, h)
			}
		}})
	if err != nil {
		return err
	}
	c, err := forge.Load(filepath.Join(j.Dir, "chain.gob"))
	if err != nil {
		return err
	}
	refdb, err := harness.OpenRO(filepath.Join(j.Dir, "refdb.v4"))
	if err != nil {
		return err
	}
	binding, totalConv, err := bindingConversions(refdb)
	// verify the gaps are really unrated in the reference
	for _, g := range gapsAbs {
		var n int
		refdb.QueryRow("SELECT COUNT(*) FROM pn_rate WHERE height = ?", g).Scan(&n)
		if n != 0 {
			r.Inconclusive = append(r.Inconclusive, fmt.Sprintf("gap height %d has rates in the reference run", g))
		}
	}
	refdb.Close()
	if err != nil {
		return err
	}
	r.Count("reference_conversions", int64(totalConv))
	bindAfter := func(h uint32) int {
		n := 0
		for x, k := range binding {
			if x > h {
				n += k
			}
		}
		return n
	}
	r.Count("reference_binding_conversions", int64(bindAfter(0)))

	for ri, rs := range p.Restarts {
		var abs []uint32
		for _, x := range rs {
			abs = append(abs, warm+uint32(x))
		}
		dbp := filepath.Join(j.Dir, fmt.Sprintf("rep%d", ri))
		if err := copyFile(filepath.Join(j.Dir, fmt.Sprintf("ckpt-%d.db", warm)), dbp+".v4"); err != nil {
			return err
		}
		res, err := Replay(c, ReplayOpts{DBPath: dbp, ShortAvg: p.Window, Restarts: abs, PerHeight: true, KeepRows: true})
		r.Count("replays", 1)
		caseDesc := map[string]interface{}{"seed": p.Seed, "gaps_at": gapsAbs, "restarts_at": abs, "window": p.Window, "warmup_end": warm, "tip": tip}
		if err != nil {
			r.Inconclusive = append(r.Inconclusive, fmt.Sprintf("replay %v failed: %v", caseDesc, err))
			continue
		}
		// non-trivial: a gap lies inside the window ending at some restart, and average-priced
		// conversions executed after that restart
		nontrivial := false
		for _, rh := range abs {
			for _, g := range gapsAbs {
				if g <= rh && rh-g < uint32(p.Window) && bindAfter(rh) > 0 {
					nontrivial = true
				}
			}
		}
		if nontrivial {
			r.Count("nontrivial", 1)
			r.Seen("nontrivial_cases", fmt.Sprintf("g%v-r%v", p.Gaps, rs))
		}
		r.Sample(caseDesc)
		first := uint32(0)
		var hs []uint32
		for h := range res.PerHeight {
			hs = append(hs, h)
		}
		sort.Slice(hs, func(a, b int) bool { return hs[a] < hs[b] })
		for _, h := range hs {
			if meta.PerHeight[h] != res.PerHeight[h] {
				first = h
				break
			}
		}
		if first != 0 || res.Dump.Total != ref.Total {
			diff := harness.DiffDumps(ref, res.Dump)
			tables := ""
			for t, hsx := range ref.Hashes {
				if res.Dump.Hashes[t] != hsx {
					tables += t + ","
				}
			}
			r.Violate("C09", "restart-divergence tables="+sortCSV(tables),
				fmt.Sprintf("ledger after restarts differs from the continuous run of the same chain; first divergent height %d\ncase: %v\n%s", first, caseDesc, joinLines(diff, 8)), caseDesc)
		}
		os_remove(dbp + ".v4")
	}
	return nil
}

func checkC09(c *Ctx) *orch.Outcome {
	o := c.NewOutcome("exploration")
	o.Rule = fmt.Sprintf("one evaluation = one (set of ungraded heights, set of restart heights) case: the chain is synced once continuously (reference) and once with clean stop/start at the restart heights; per-height and final dumps must coincide. "+
		"Non-trivial = an ungraded block lies inside the %d-block averaging window ending at a restart and conversions priced by the average (credited amount ≠ spot amount, measured in the reference) execute after it.", c09Window)
	o.Assumptions = []string{
		fmt.Sprintf("averaging window shortened to %d (node.AveragePeriod/AverageRequired package variables); the thorough tier adds chains at the real 288", c09Window),
		"restart = context cancel at a block boundary + new NewPegnetd on the same database (in the same OS process: in-memory daemon state lives in the Pegnetd struct)",
		"restart-time back-fill rows (pn_sync_version version=-1) excluded from comparison",
	}
	span := 2 * c09Window
	rng := rand.New(rand.NewSource(c.Seed))
	var jobs []orch.Job
	add := func(seed int64, gaps []int, rsets [][]int, window uint64, sp int) {
		pj, _ := json.Marshal(c09Params{Seed: seed, Gaps: gaps, Restarts: rsets, Span: sp, Window: window})
		to := 1500
		if window > 100 {
			to = 7200 // ~650 busy blocks forged, then replayed from the warm-up checkpoint once per restart set
		}
		jobs = append(jobs, orch.Job{Kind: "c09.case", Name: fmt.Sprintf("c09-%d-g%v-w%d", seed, gaps, window), Seed: seed, Params: pj, Timeout: to})
	}
	if !c.Thorough() {
		// 12 gap positions × 6 restart positions (stratified) + multi-gap / multi-restart cases
		for gi := 0; gi < 10; gi++ {
			g := 1 + (gi*2+int(c.Seed))%(span-4)
			var rsets [][]int
			for k := 0; k < 5; k++ {
				rsets = append(rsets, []int{g + rng.Intn(c09Window+2)})
			}
			rsets = append(rsets, []int{g + 1, g + 5})
			// stop right before the unrated block(s), and right before the block before them: what was waiting
			// at the stop has to be found again although the first blocks after the restart have no rates
			if g >= 1 {
				rsets = append(rsets, []int{g - 1})
			}
			rsets = append(rsets, []int{g})
			add(c.Seed*100+int64(gi), []int{g}, rsets, c09Window, span)
		}
		add(c.Seed*100+50, []int{2, 3, 9}, [][]int{{4}, {10}, {12}, {5, 11}, everyBlock(span)}, c09Window, span)
		add(c.Seed*100+51, nil, [][]int{{3}, {7}, everyBlock(span)}, c09Window, span)
	} else {
		span = 3 * c09Window
		// exhaustive: every (gap position, restart position) pair within the span
		for g := 0; g < span; g++ {
			var rsets [][]int
			for rpos := 0; rpos < span; rpos++ {
				rsets = append(rsets, []int{rpos})
			}
			add(c.Seed*1000+int64(g), []int{g}, rsets, c09Window, span)
		}
		for k := 0; k < 24; k++ {
			var gaps []int
			for i := 0; i < 2+rng.Intn(3); i++ {
				gaps = append(gaps, rng.Intn(span))
			}
			var rsets [][]int
			for i := 0; i < 6; i++ {
				rsets = append(rsets, []int{rng.Intn(span), rng.Intn(span)})
			}
			rsets = append(rsets, everyBlock(span))
			add(c.Seed*1000+500+int64(k), gaps, rsets, c09Window, span)
		}
		o.Exhaustive = false // exhaustive over single (gap, restart) pairs in the span only; stated in coverage
		o.Extra["exhaustive_within"] = fmt.Sprintf("all %d×%d single-gap × single-restart placements in a %d-block span at window %d", span, span, span, c09Window)
		// real window
		for k := 0; k < 3; k++ {
			g := 20 + rng.Intn(250)
			add(c.Seed*1000+900+int64(k), []int{g, g + 1 + rng.Intn(30)}, [][]int{{g + 5}, {g + 150}, {g + 280}, {g + 290}}, 288, 330)
		}
	}
	rs := c.R.Run(jobs)
	o.Merge(rs)
	for i, r := range rs {
		if r.Crashed {
			o.Inconclusive = append(o.Inconclusive, fmt.Sprintf("job %s crashed: %s", jobs[i].Name, clipS(r.Stderr, 600)))
		}
	}
	o.Evaluations = orch.SumCounter(rs, "replays")
	o.Nontrivial = int64(len(orch.UnionDistinct(rs, "nontrivial_cases")))
	o.Extra["reference_conversions"] = orch.SumCounter(rs, "reference_conversions")
	o.Extra["reference_conversions_priced_by_average"] = orch.SumCounter(rs, "reference_binding_conversions")
	o.Extra["chains"] = len(jobs)
	o.MinNontrivial = 10
	return o
}

// heightsFrom: the replays start from the checkpoint at the end of the warm-up, so only later heights are compared.
func heightsFrom(lo, hi uint32) map[uint32]bool {
	out := map[uint32]bool{}
	for h := lo; h <= hi; h++ {
		out[h] = true
	}
	return out
}

func everyBlock(span int) []int {
	var out []int
	for i := 0; i < span; i++ {
		out = append(out, i)
	}
	return out
}
