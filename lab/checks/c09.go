package checks

import (
	"database/sql"
	"encoding/json"
	"fmt"
	"math/big"
	"math/rand"
	"net"
	"path/filepath"
	"sort"
	"time"

	"github.com/pegnet/pegnetd/config"
	"github.com/pegnet/pegnetd/node"
	"github.com/pegnet/pegnetd/srv"
	"github.com/spf13/viper"
	"verif/lab/forge"
	"verif/lab/gen"
	"verif/lab/harness"
	"verif/lab/orch"
	"verif/lab/rules"
)

// C09 Restart independence — metamorphic: continuous run vs runs with clean stop/start at block
// boundaries, on chains with ungraded blocks inside the (shortened) averaging window and
// conversions priced by the rolling average.

const c09Window = 12

type c09Params struct {
	Seed     int64      `json:"seed"`
	Gaps     []int      `json:"gaps"`     // offsets (from the end of warm-up) of ungraded blocks
	Restarts [][]int    `json:"restarts"` // restart sets, offsets from the end of warm-up
	Span     int        `json:"span"`
	Window   uint64     `json:"window"`
}

func init() {
	registry["C09"] = checkC09
	orch.Register("c09.case", c09Case)
	orch.Register("c09.boundary", c09Boundary)
	orch.Register("c09.api", c09API)
}

// c09Boundary: a chain that crosses every activation (compressed eras), synced once continuously and once per
// restart set with a clean stop/start right before, at and right after each activation from 2.0 on. The 2.0.4
// mint goes to an address whose key the lab holds (node.GlobalMintAddress is a package variable); the mint
// block itself is quiet after grading (no winners, a handful of staking records, no transactions), and in the
// next block the mint address's owner submits the 25th staking record: whether it counts depends on the list of
// top PEG holders as of the previous block - which must not depend on when the process was started.
func c09Boundary(j *orch.Job, r *orch.Result) error {
	var p c09Params
	json.Unmarshal(j.Params, &p)
	rng := rand.New(rand.NewSource(p.Seed))
	e := RandomEras(rng, true)
	for e.V204%144 == 0 || (e.V204+1)%144 == 0 {
		e.V204++
		e.V204Burn++
		e.PIP10++
	}
	mk := mintKey(p.Seed)
	node.GlobalMintAddress, rules.GlobalMintAddress = mk.FA().String(), mk.FA().String()
	tip := e.PIP10 + 16
	mo := gen.DefaultMixedOpts()
	mo.TxPerBlock = 4
	mo.UngradedProb, mo.NoOPRProb = 0.05, 0
	_, meta, ref, err := ForgeChain(ForgeOpts{Profile: "c09b", Seed: p.Seed, Eras: e, Upto: tip, ShortAvg: c09Window, Mixed: &mo, Dir: j.Dir, KeepDB: true,
		Customize: func(m *gen.Mixed) {
			h := e.V204
			m.ForceGraded[h-1], m.ForceGraded[h+1], m.ForceGraded[h+2] = true, true, true
			m.ForceUngraded[h] = true
			// nothing executes at the two one-way activation heights themselves either (no rates in those blocks)
			for _, a := range []uint32{e.OneWaypFCT, e.V202} {
				if a%144 != 0 {
					m.ForceGraded[a-1], m.ForceGraded[a+1] = true, true
					m.ForceUngraded[a] = true
				}
			}
			stakers := func(v *gen.View, n int) []forge.Key {
				var st []forge.Key
				for _, a := range gen.TopPEG(v.Balances, 100) {
					for _, k := range m.Actors {
						if k.FA() == a && !k.IsEth() && len(st) < n {
							st = append(st, k)
						}
					}
				}
				return st
			}
			m.Schedule(h, func(v *gen.View, s *forge.BlockSpec) {
				s.Tx = nil
				s.SPR = m.W.StdSPRs(h, stakers(v, 5), m.W.Prices) // a few records: the staker list is looked at, nobody wins
			})
			m.Schedule(h+1, func(v *gen.View, s *forge.BlockSpec) {
				st := stakers(v, 30)
				var keep []forge.Key
				for _, k := range st {
					if k.FA() != mk.FA() && len(keep) < 24 {
						keep = append(keep, k)
					}
				}
				if len(keep) == 24 {
					s.SPR = m.W.StdSPRs(h+1, append(keep, mk), m.W.Prices)
				}
			})
		}})
	if err != nil {
		return err
	}
	c, err := forge.Load(filepath.Join(j.Dir, "chain.gob"))
	if err != nil {
		return err
	}
	var sets [][]uint32
	for _, a := range []uint32{e.V20, e.V20Dev, e.V202, e.V204, e.V204Burn, e.PIP10} {
		sets = append(sets, []uint32{a - 1}, []uint32{a}, []uint32{a + 1})
	}
	sets = append(sets, []uint32{e.V20Dev, e.V202, e.V204, e.V204Burn})
	sets = append(sets, []uint32{e.OneWaypFCT - 1}, []uint32{e.OneWaypFCT}, []uint32{e.OneWaypFCT + 1}) // 20, 21, 22
	if p.Span > 0 {
		// one job per restart set (the chain is forged again in each: same seed, same chain)
		sets = [][]uint32{sets[(p.Span-1)%len(sets)]}
	}
	for ri, abs := range sets {
		dbp := filepath.Join(j.Dir, fmt.Sprintf("rep%d", ri))
		res, err := Replay(c, ReplayOpts{DBPath: dbp, ShortAvg: c09Window, Restarts: abs, StepMode: true, KeepRows: true})
		r.Count("replays", 1)
		caseDesc := map[string]interface{}{"seed": p.Seed, "restarts_at": abs, "eras": e, "tip": tip, "kind": "activation boundaries"}
		if err != nil {
			r.Inconclusive = append(r.Inconclusive, fmt.Sprintf("replay %v failed: %v", caseDesc, err))
			continue
		}
		r.Count("nontrivial", 1)
		r.Seen("nontrivial_cases", fmt.Sprintf("boundary-r%v", abs))
		first := uint32(0)
		for h := e.OneWaypFCT - 2; h <= tip; h++ {
			if meta.PerHeight[h] != "" && res.PerHeight[h] != "" && meta.PerHeight[h] != res.PerHeight[h] {
				first = h
				break
			}
		}
		if first != 0 || res.Dump.Total != ref.Total {
			tables := ""
			for t, hsx := range ref.Hashes {
				if res.Dump.Hashes[t] != hsx {
					tables += t + ","
				}
			}
			r.Violate("C09", "restart-divergence at=activation-boundary tables="+sortCSV(tables),
				fmt.Sprintf("ledger after a restart at %v differs from the continuous run of the same chain; first divergent height %d\n%s", abs, first, joinLines(harness.DiffDumps(ref, res.Dump), 8)), caseDesc)
		}
		os_remove(dbp + ".v4")
	}
	return nil
}

// LateEras packs every activation into the first blocks so that the whole chain runs under the
// final rule set (PIP-10 included).
func LateEras(base uint32) forge.Eras {
	return forge.ErasCompressed(base, [16]uint32{1, 1, 1, 1, 1, 1, 2, 2, 2, 1, 1, 2})
}

// bindingConversions counts, per executed height, conversions whose credited amount differs from
// the spot-rate amount (i.e. the average decided the price).
func bindingConversions(db *sql.DB) (map[uint32]int, int, error) {
	rows, err := db.Query(`SELECT b.executed, t.from_asset, t.from_amount, t.to_asset, t.to_amount FROM pn_history_transaction t
		JOIN pn_history_txbatch b ON b.entry_hash = t.entry_hash WHERE t.action_type = 2 AND b.executed > 0`)
	if err != nil {
		return nil, 0, err
	}
	defer rows.Close()
	type conv struct {
		x        uint32
		fa, ta   string
		fam, tam int64
	}
	var cs []conv
	for rows.Next() {
		var c conv
		if err := rows.Scan(&c.x, &c.fa, &c.fam, &c.ta, &c.tam); err != nil {
			return nil, 0, err
		}
		cs = append(cs, c)
	}
	out := map[uint32]int{}
	total := 0
	cache := map[uint32]map[string]uint64{}
	for _, c := range cs {
		r, ok := cache[c.x]
		if !ok {
			r, err = harness.ReadRates(db, c.x)
			if err != nil {
				return nil, 0, err
			}
			cache[c.x] = r
		}
		total++
		if r[c.fa] == 0 || r[c.ta] == 0 {
			continue
		}
		spot := new(big.Int).Mul(big.NewInt(c.fam), new(big.Int).SetUint64(r[c.fa]))
		spot.Div(spot, new(big.Int).SetUint64(r[c.ta]))
		if spot.Int64() != c.tam {
			out[c.x]++
		}
	}
	return out, total, nil
}

func c09Case(j *orch.Job, r *orch.Result) error {
	var p c09Params
	json.Unmarshal(j.Params, &p)
	base := uint32(1070)
	e := LateEras(base)
	warm := e.PIP10 + uint32(p.Window) + 2
	tip := warm + uint32(p.Span)
	mo := gen.DefaultMixedOpts()
	mo.UngradedProb, mo.NoOPRProb = 0, 0
	mo.TxPerBlock = 8
	mo.OverdrawProb = 0.03
	mo.ForbiddenProb = 0.02
	mo.BurnProb = 0.9
	gapsAbs := []uint32{}
	_, meta, ref, err := ForgeChain(ForgeOpts{Profile: "c09", Seed: p.Seed, Eras: e, Upto: tip, ShortAvg: p.Window, Mixed: &mo, Dir: j.Dir, KeepDB: true,
		PerHeight: true, PerHeightOnly: heightsFrom(warm, tip), Checkpoints: map[uint32]bool{warm: true},
		Customize: func(m *gen.Mixed) {
			for h := base + 1; h <= tip; h++ {
				m.ForceGraded[h] = true
			}
			for _, g := range p.Gaps {
				h := warm + uint32(g)
				delete(m.ForceGraded, h)
				m.ForceUngraded[h] = true
				gapsAbs = append(gapsAbs, h)
			}
		}})
	if err != nil {
		return err
	}
	c, err := forge.Load(filepath.Join(j.Dir, "chain.gob"))
	if err != nil {
		return err
	}
	refdb, err := harness.OpenRO(filepath.Join(j.Dir, "refdb.v4"))
	if err != nil {
		return err
	}
	binding, totalConv, err := bindingConversions(refdb)
	// verify the gaps are really unrated in the reference
	for _, g := range gapsAbs {
		var n int
		refdb.QueryRow("SELECT COUNT(*) FROM pn_rate WHERE height = ?", g).Scan(&n)
		if n != 0 {
			r.Inconclusive = append(r.Inconclusive, fmt.Sprintf("gap height %d has rates in the reference run", g))
		}
	}
	refdb.Close()
	if err != nil {
		return err
	}
	r.Count("reference_conversions", int64(totalConv))
	bindAfter := func(h uint32) int {
		n := 0
		for x, k := range binding {
			if x > h {
				n += k
			}
		}
		return n
	}
	r.Count("reference_binding_conversions", int64(bindAfter(0)))

	for ri, rs := range p.Restarts {
		var abs []uint32
		for _, x := range rs {
			abs = append(abs, warm+uint32(x))
		}
		dbp := filepath.Join(j.Dir, fmt.Sprintf("rep%d", ri))
		if err := copyFile(filepath.Join(j.Dir, fmt.Sprintf("ckpt-%d.db", warm)), dbp+".v4"); err != nil {
			return err
		}
		res, err := Replay(c, ReplayOpts{DBPath: dbp, ShortAvg: p.Window, Restarts: abs, PerHeight: true, KeepRows: true})
		r.Count("replays", 1)
		caseDesc := map[string]interface{}{"seed": p.Seed, "gaps_at": gapsAbs, "restarts_at": abs, "window": p.Window, "warmup_end": warm, "tip": tip}
		if err != nil {
			r.Inconclusive = append(r.Inconclusive, fmt.Sprintf("replay %v failed: %v", caseDesc, err))
			continue
		}
		// non-trivial: a gap lies inside the window ending at some restart, and average-priced
		// conversions executed after that restart
		nontrivial := false
		for _, rh := range abs {
			for _, g := range gapsAbs {
				if g <= rh && rh-g < uint32(p.Window) && bindAfter(rh) > 0 {
					nontrivial = true
				}
			}
		}
		if nontrivial {
			r.Count("nontrivial", 1)
			r.Seen("nontrivial_cases", fmt.Sprintf("g%v-r%v", p.Gaps, rs))
		}
		r.Sample(caseDesc)
		first := uint32(0)
		var hs []uint32
		for h := range res.PerHeight {
			hs = append(hs, h)
		}
		sort.Slice(hs, func(a, b int) bool { return hs[a] < hs[b] })
		for _, h := range hs {
			if meta.PerHeight[h] != res.PerHeight[h] {
				first = h
				break
			}
		}
		if first != 0 || res.Dump.Total != ref.Total {
			diff := harness.DiffDumps(ref, res.Dump)
			tables := ""
			for t, hsx := range ref.Hashes {
				if res.Dump.Hashes[t] != hsx {
					tables += t + ","
				}
			}
			r.Violate("C09", "restart-divergence tables="+sortCSV(tables),
				fmt.Sprintf("ledger after restarts differs from the continuous run of the same chain; first divergent height %d\ncase: %v\n%s", first, caseDesc, joinLines(diff, 8)), caseDesc)
		}
		os_remove(dbp + ".v4")
	}
	return nil
}

// c09API: the daemon also answers read requests between blocks (rich lists go through the rolling-average cache
// the sync loop prices conversions with). The chain has an asset whose average is unavailable while its spot
// rate is not, and conversions of it waiting. Replay A lives through the whole chain; replay B is a new process
// before every block from shortly before the PIP-10 activation on. Both serve the same requests after the same
// blocks; what a process has been asked since it started must not show in the ledger.
func c09API(j *orch.Job, r *orch.Result) error {
	var p c09Params
	json.Unmarshal(j.Params, &p)
	mp := &modelParams{Seed: p.Seed, Profile: "mixed", Late: true, Window: 12, Features: []string{"c07", "avg-unavailable", "gaps"}}
	e, m, tip := buildWorkload(mp)
	setAvg(12)
	n, err := harness.StartNode(harness.NodeConfig{DBPath: filepath.Join(j.Dir, "refdb")}, m.W.Chain)
	if err != nil {
		return err
	}
	n.Run()
	if err := gen.Drive(n, m, m.W, tip, harness.WaitOpts{}, nil); err != nil {
		n.Stop()
		r.Inconclusive = append(r.Inconclusive, "forging stopped: "+err.Error())
		return nil
	}
	ref, err := harness.TakeDump(n.RO, harness.DumpOptions{DropBackfill: true, KeepRows: true})
	var unavailable int
	n.RO.QueryRow("SELECT COUNT(*) FROM pn_history_txbatch b JOIN pn_history_transaction t ON t.entry_hash = b.entry_hash WHERE b.executed = 0 AND t.action_type = 2 AND b.height >= ?", e.PIP10).Scan(&unavailable)
	n.Stop()
	if err != nil {
		return err
	}
	r.Count("conversions_left_waiting_for_an_average_in_the_reference", int64(unavailable))
	qs := []apiQuery{
		{"rich-list", "get-rich-list", map[string]interface{}{"asset": "pXBT", "count": 5}},
		{"rich-list", "get-rich-list", map[string]interface{}{"asset": "PEG", "count": 5}},
		{"global-rich-list", "get-global-rich-list", map[string]interface{}{"count": 5}},
		{"rates", "get-pegnet-rates", map[string]interface{}{}},
	}
	run := func(name string, restarts []uint32) (*ReplayResult, error) {
		port := 0
		return Replay(m.W.Chain, ReplayOpts{DBPath: filepath.Join(j.Dir, name), ShortAvg: 12, Restarts: restarts, StepMode: true, KeepRows: true,
			OnNode: func(n *harness.Node) {
				port = freePort()
				conf := viper.New()
				conf.Set(config.APIListen, fmt.Sprintf("127.0.0.1:%d", port))
				srv.NewAPIServer(conf, n.P).Start(make(chan struct{}))
				for i := 0; i < 200; i++ {
					if cn, err := net.Dial("tcp", fmt.Sprintf("127.0.0.1:%d", port)); err == nil {
						cn.Close()
						break
					}
					time.Sleep(5 * time.Millisecond)
				}
			},
			AtHeight: func(n *harness.Node, h uint32) error {
				if h < e.TxConv {
					return nil
				}
				for _, q := range qs {
					if _, err := callAPI(port, q); err == nil {
						r.Count("api_requests_between_blocks", 1)
					}
				}
				return nil
			}})
	}
	a, err := run("rep-a", nil)
	r.Count("replays", 1)
	if err != nil {
		r.Inconclusive = append(r.Inconclusive, "continuous replay with API requests failed: "+err.Error())
		return nil
	}
	var rst []uint32
	for h := e.PIP10 - 3; h < tip; h++ {
		rst = append(rst, h)
	}
	b, err := run("rep-b", rst)
	r.Count("replays", 1)
	if err != nil {
		r.Inconclusive = append(r.Inconclusive, "restarted replay with API requests failed: "+err.Error())
		return nil
	}
	caseDesc := map[string]interface{}{"seed": p.Seed, "eras": e, "tip": tip, "kind": "api requests between blocks", "restarts_from": e.PIP10 - 3}
	if unavailable > 0 {
		r.Count("nontrivial", 1)
		r.Seen("nontrivial_cases", fmt.Sprintf("api-%d", p.Seed))
	}
	diffTables := func(x, y *harness.Dump) string {
		tables := ""
		for t, hsx := range x.Hashes {
			if y.Hashes[t] != hsx {
				tables += t + ","
			}
		}
		return sortCSV(tables)
	}
	if a.Dump.Total != b.Dump.Total {
		r.Violate("C09", "restart-divergence at=every-block with=api-requests tables="+diffTables(a.Dump, b.Dump),
			fmt.Sprintf("both replays answer the same read requests after the same blocks; the one restarted before every block from %d on ends in another ledger than the one that lives through (A = continuous, B = restarted)\n%s", e.PIP10-3, joinLines(harness.DiffDumps(a.Dump, b.Dump), 8)), caseDesc)
	} else if b.Dump.Total != ref.Total {
		r.Violate("C09", "restart-divergence at=every-block tables="+diffTables(ref, b.Dump),
			fmt.Sprintf("ledger after restarts differs from the run that forged the chain\n%s", joinLines(harness.DiffDumps(ref, b.Dump), 8)), caseDesc)
	}
	return nil
}

func checkC09(c *Ctx) *orch.Outcome {
	o := c.NewOutcome("exploration")
	o.Rule = fmt.Sprintf("one evaluation = one (set of ungraded heights, set of restart heights) case: the chain is synced once continuously (reference) and once with clean stop/start at the restart heights; per-height and final dumps must coincide. "+
		"Non-trivial = an ungraded block lies inside the %d-block averaging window ending at a restart and conversions priced by the average (credited amount ≠ spot amount, measured in the reference) execute after it.", c09Window)
	o.Assumptions = []string{
		fmt.Sprintf("averaging window shortened to %d (node.AveragePeriod/AverageRequired package variables); the thorough tier adds chains at the real 288", c09Window),
		"restart = context cancel at a block boundary + new NewPegnetd on the same database (in the same OS process: in-memory daemon state lives in the Pegnetd struct)",
		"restart-time back-fill rows (pn_sync_version version=-1) excluded from comparison",
		"plus chains with compressed eras restarted right before / at / right after every activation from 2.0 on (mint address substituted by one whose key the lab holds)",
		"plus chains (an asset without an average, conversions of it waiting) replayed twice while read-only API requests are answered after every block: by one process, and by a new process before every block",
	}
	span := 2 * c09Window
	rng := rand.New(rand.NewSource(c.Seed))
	var jobs []orch.Job
	add := func(seed int64, gaps []int, rsets [][]int, window uint64, sp int) {
		pj, _ := json.Marshal(c09Params{Seed: seed, Gaps: gaps, Restarts: rsets, Span: sp, Window: window})
		to := 1500
		if window > 100 {
			to = 7200 // ~650 busy blocks forged, then replayed from the warm-up checkpoint once per restart set
		}
		jobs = append(jobs, orch.Job{Kind: "c09.case", Name: fmt.Sprintf("c09-%d-g%v-w%d", seed, gaps, window), Seed: seed, Params: pj, Timeout: to})
	}
	if !c.Thorough() {
		// 12 gap positions × 6 restart positions (stratified) + multi-gap / multi-restart cases
		for gi := 0; gi < 10; gi++ {
			g := 1 + (gi*2+int(c.Seed))%(span-4)
			var rsets [][]int
			for k := 0; k < 5; k++ {
				rsets = append(rsets, []int{g + rng.Intn(c09Window+2)})
			}
			rsets = append(rsets, []int{g + 1, g + 5})
			// stop right before the unrated block(s), and right before the block before them: what was waiting
			// at the stop has to be found again although the first blocks after the restart have no rates
			if g >= 1 {
				rsets = append(rsets, []int{g - 1})
			}
			rsets = append(rsets, []int{g})
			add(c.Seed*100+int64(gi), []int{g}, rsets, c09Window, span)
		}
		add(c.Seed*100+50, []int{2, 3, 9}, [][]int{{4}, {10}, {12}, {5, 11}, everyBlock(span)}, c09Window, span)
		add(c.Seed*100+51, nil, [][]int{{3}, {7}, everyBlock(span)}, c09Window, span)
	} else {
		span = 3 * c09Window
		// exhaustive: every (gap position, restart position) pair within the span
		for g := 0; g < span; g++ {
			var rsets [][]int
			for rpos := 0; rpos < span; rpos++ {
				rsets = append(rsets, []int{rpos})
			}
			add(c.Seed*1000+int64(g), []int{g}, rsets, c09Window, span)
		}
		for k := 0; k < 24; k++ {
			var gaps []int
			for i := 0; i < 2+rng.Intn(3); i++ {
				gaps = append(gaps, rng.Intn(span))
			}
			var rsets [][]int
			for i := 0; i < 6; i++ {
				rsets = append(rsets, []int{rng.Intn(span), rng.Intn(span)})
			}
			rsets = append(rsets, everyBlock(span))
			add(c.Seed*1000+500+int64(k), gaps, rsets, c09Window, span)
		}
		o.Exhaustive = false // exhaustive over single (gap, restart) pairs in the span only; stated in coverage
		o.Extra["exhaustive_within"] = fmt.Sprintf("all %d×%d single-gap × single-restart placements in a %d-block span at window %d", span, span, span, c09Window)
		// real window
		for k := 0; k < 3; k++ {
			g := 20 + rng.Intn(250)
			add(c.Seed*1000+900+int64(k), []int{g, g + 1 + rng.Intn(30)}, [][]int{{g + 5}, {g + 150}, {g + 280}, {g + 290}}, 288, 330)
		}
	}
	// restarts around every activation of a compressed-era chain (one chain in the quick tier, six in the thorough one)
	nb := 1
	if c.Thorough() {
		nb = 6
	}
	for k := 0; k < nb; k++ {
		// restart sets: index 1..19 = {a-1},{a},{a+1} for the six activations from 2.0 on, then all of four at once
		idx := []int{10, 11, 12, 8, 5, 17, 19, 21} // 2.0.4 -1/0/+1, 2.0.2, dev rewards, PIP-10, several, pFCT one-way
		if c.Thorough() {
			idx = nil
			for i := 1; i <= 22; i++ {
				idx = append(idx, i)
			}
		}
		for _, i := range idx {
			pj, _ := json.Marshal(c09Params{Seed: c.Seed*100 + 70 + int64(k), Span: i})
			jobs = append(jobs, orch.Job{Kind: "c09.boundary", Name: fmt.Sprintf("c09-boundary-%d-set%d", k, i), Seed: c.Seed*100 + 70 + int64(k), Params: pj, Timeout: 1800})
		}
	}
	// API requests between blocks, continuous against restarted before every block
	na := 2
	if c.Thorough() {
		na = 12
	}
	for k := 0; k < na; k++ {
		pj, _ := json.Marshal(c09Params{Seed: c.Seed*100 + 90 + int64(k)})
		jobs = append(jobs, orch.Job{Kind: "c09.api", Name: fmt.Sprintf("c09-api-%d", k), Seed: c.Seed*100 + 90 + int64(k), Params: pj, Timeout: 1800})
	}
	rs := c.R.Run(jobs)
	o.Merge(rs)
	for i, r := range rs {
		if r.Crashed {
			o.Inconclusive = append(o.Inconclusive, fmt.Sprintf("job %s crashed: %s", jobs[i].Name, clipS(r.Stderr, 600)))
		}
	}
	o.Evaluations = orch.SumCounter(rs, "replays")
	o.Nontrivial = int64(len(orch.UnionDistinct(rs, "nontrivial_cases")))
	o.Extra["reference_conversions"] = orch.SumCounter(rs, "reference_conversions")
	o.Extra["reference_conversions_priced_by_average"] = orch.SumCounter(rs, "reference_binding_conversions")
	o.Extra["chains"] = len(jobs)
	o.Extra["api_requests_between_blocks"] = orch.SumCounter(rs, "api_requests_between_blocks")
	o.Extra["conversions_left_waiting_for_an_average_in_the_reference"] = orch.SumCounter(rs, "conversions_left_waiting_for_an_average_in_the_reference")
	o.MinNontrivial = 10
	return o
}

// heightsFrom: the replays start from the checkpoint at the end of the warm-up, so only later heights are compared.
func heightsFrom(lo, hi uint32) map[uint32]bool {
	out := map[uint32]bool{}
	for h := lo; h <= hi; h++ {
		out[h] = true
	}
	return out
}

func everyBlock(span int) []int {
	var out []int
	for i := 0; i < span; i++ {
		out = append(out, i)
	}
	return out
}
