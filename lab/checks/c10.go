package checks

import (
	"encoding/json"
	"errors"
	"fmt"
	"math/rand"
	"os"
	"os/exec"
	"path/filepath"
	"strings"
	"sync/atomic"
	"time"

	"verif/lab/forge"
	"verif/lab/harness"
	"verif/lab/orch"
	"verif/lab/vdriver"
)

// C10 Fault transparency — fault enumeration. One transient fault (a database statement that
// returns an error instead of executing, or an upstream request answered with an error) is
// injected while a special block b is applied from its checkpoint; the daemon then runs on.
// Every state committed from b on must equal the fault-free reference (a block committed with
// part of its effects missing shows at b; a lasting divergence shows at b+3). A daemon that
// stops (log.Fatal / panic) after the fault is treated as crash-stop: a fresh process resumes,
// like a supervisor would, and the same ledger is demanded.

type c10Params struct {
	Dir    string `json:"dir"`
	Block  uint32 `json:"block"`
	Label  string `json:"label"`
	DBPath string `json:"db_path"`
	Resume bool   `json:"resume"` // no fault, no checkpoint copy: continue on the database as it is
	// database fault
	K    int    `json:"k,omitempty"`
	Stmt string `json:"stmt,omitempty"`
	Site string `json:"site,omitempty"`
	// upstream fault
	Req   *ReqInfo          `json:"req,omitempty"`
	Fault harness.FaultKind `json:"fault,omitempty"`
	// Twice: the same request fails twice in a row (the first time and the next time it is made)
	Twice bool `json:"twice,omitempty"`
	// second fault (pairs): statement index in the first retry attempt
	K2    int    `json:"k2,omitempty"`
	Site2 string `json:"site2,omitempty"`
	Stmt2 string `json:"stmt2,omitempty"`
	// operating-system fault: the child runs under strace, which fails the N-th call (per thread) of one
	// system call on the database or its journal with an errno ("pwrite64:ENOSPC:3")
	OS string `json:"os,omitempty"`
}

// straceWrap builds the command prefix for an operating-system fault.
func (p *c10Params) straceWrap() []string {
	f := strings.Split(p.OS, ":")
	if len(f) != 3 {
		return nil
	}
	return []string{"strace", "-f", "--seccomp-bpf", "-o", "{dir}/strace.log", "-P", p.DBPath + ".v4", "-P", p.DBPath + ".v4-journal",
		"-e", "trace=pwrite64,fsync,fdatasync,ftruncate,unlink", "-e", fmt.Sprintf("inject=%s:error=%s:when=%s", f[0], f[1], f[2])}
}

func init() {
	registry["C10"] = checkC10
	orch.Register("c10.fault", c10Fault)
}

func (p *c10Params) describe() string {
	if p.OS != "" {
		f := strings.Split(p.OS, ":")
		return fmt.Sprintf("operating system: %s on the database or journal file fails with %s (call #%s of each thread)", f[0], f[1], f[2])
	}
	if p.Req != nil {
		tw := ""
		if p.Twice {
			tw = ", and again the next time the request is made"
		}
		return fmt.Sprintf("upstream %s on %s(%s) #%d%s", p.Fault, p.Req.Method, p.Req.What, p.Req.Nth, tw)
	}
	if p.K2 > 0 {
		return fmt.Sprintf("db statement #%d [%s] at %s, then in the retry statement #%d [%s] at %s", p.K, clipS(p.Stmt, 50), p.Site, p.K2, clipS(p.Stmt2, 50), p.Site2)
	}
	return fmt.Sprintf("db statement #%d [%s] at %s", p.K, clipS(p.Stmt, 50), p.Site)
}

func (p *c10Params) signature(what string) string {
	if p.OS != "" {
		f := strings.Split(p.OS, ":")
		return fmt.Sprintf("%s label=%s os=%s/%s", what, p.Label, f[0], f[1])
	}
	if p.Req != nil {
		tw := ""
		if p.Twice {
			tw = "+twice"
		}
		return fmt.Sprintf("%s label=%s upstream=%s/%s%s", what, p.Label, p.Req.What, p.Fault, tw)
	}
	if p.K2 > 0 {
		return fmt.Sprintf("%s label=%s site=%s stmt=%s retry-site=%s retry-stmt=%s", what, p.Label, p.Site, clipS(p.Stmt, 48), p.Site2, clipS(p.Stmt2, 48))
	}
	return fmt.Sprintf("%s label=%s site=%s stmt=%s", what, p.Label, p.Site, clipS(p.Stmt, 48))
}

func c10Fault(j *orch.Job, r *orch.Result) error {
	var p c10Params
	json.Unmarshal(j.Params, &p)
	c, err := forge.Load(filepath.Join(p.Dir, "chain.gob"))
	if err != nil {
		return err
	}
	rm, err := loadRich(p.Dir)
	if err != nil {
		return err
	}
	setAvg(12)
	if !p.Resume {
		if err := copyFile(filepath.Join(p.Dir, fmt.Sprintf("ckpt-%d.db", p.Block-1)), p.DBPath+".v4"); err != nil {
			return err
		}
	}
	n, err := harness.StartNode(harness.NodeConfig{DBPath: p.DBPath, Wrap: true}, c)
	if err != nil {
		var er harness.ErrRefused
		if p.OS != "" && !p.Resume && errors.As(err, &er) {
			// the operating-system fault struck while the daemon was starting (strace counts calls per thread): it
			// refuses to start on a disk error, which is a stop like any other - a fresh process resumes
			r.Info["crash_stop"] = "refused to start under the injected operating-system fault"
			r.Info["stopped_at"] = p.Block
			return nil
		}
		return err
	}
	var cnt, attempt, injected int64
	if !p.Resume && p.K > 0 {
		vdriver.Set(&vdriver.Hooks{Decide: func(ev *vdriver.Event) (vdriver.Action, time.Duration) {
			if ev.Kind == vdriver.KBegin {
				atomic.AddInt64(&attempt, 1)
				atomic.StoreInt64(&cnt, 0)
			}
			a := atomic.LoadInt64(&attempt)
			if a == 0 {
				return vdriver.Proceed, 0
			}
			k := atomic.AddInt64(&cnt, 1)
			if (a == 1 && int(k) == p.K) || (a == 2 && p.K2 > 0 && int(k) == p.K2) {
				atomic.AddInt64(&injected, 1)
				return vdriver.FailInstead, 0
			}
			return vdriver.Proceed, 0
		}})
	}
	if !p.Resume && p.Req != nil {
		var once int32
		n.Fake.SetFault(func(rq harness.Req) harness.Fault {
			if rq.Cur != p.Block || rq.Method != p.Req.Method || !(rq.Nth == p.Req.Nth || (p.Twice && rq.Nth == p.Req.Nth+1)) {
				return harness.Fault{}
			}
			if p.Req.Hash != "" && fmt.Sprintf("%x", rq.Hash[:]) != p.Req.Hash {
				return harness.Fault{}
			}
			if p.Req.Method != "raw-data" && rq.Height != p.Req.Height {
				return harness.Fault{}
			}
			lim := int32(1)
			if p.Twice {
				lim = 2
			}
			if atomic.AddInt32(&once, 1) <= lim {
				atomic.AddInt64(&injected, 1)
				return harness.Fault{Kind: p.Fault}
			}
			return harness.Fault{}
		})
	}
	n.Run()
	upto := p.Block + 3
	if upto > c.GetTip() {
		upto = c.GetTip()
	}
	cd := map[string]interface{}{"block": p.Block, "label": p.Label, "fault": p.describe(), "resume": p.Resume, "chain_seed": rm.Meta.Seed}
	start, _ := n.Synced()
	// "catching up": in part of the cases the upstream node is already three blocks ahead when the fault strikes (the
	// daemon applies several blocks in one sync job); only the state at the end is compared then. (Not at the two
	// burn-zeroing blocks: their recorded finding is identified by the state committed at the block itself.)
	catchUp := !p.Resume && p.OS == "" && !strings.HasPrefix(p.Label, "nullify") &&
		(strings.HasPrefix(p.Stmt, "begin") || strings.HasPrefix(p.Stmt, "commit") || (p.K > 0 && (p.K+int(p.Block))%3 == 0) || (p.Req != nil && p.Req.Nth%2 == 0))
	first := start + 1
	if catchUp {
		first = upto
		r.Count("cases_with_the_daemon_catching_up", 1)
	}
	for h := first; h <= upto; h++ {
		err := n.WaitSynced(h, harness.WaitOpts{MaxAttempts: 6})
		if err != nil {
			r.Info["injected"] = atomic.LoadInt64(&injected)
			if errors.Is(err, harness.ErrFatal) {
				r.Info["crash_stop"] = "log.Fatal"
				r.Info["stopped_at"] = h
				return nil // the parent resumes with a fresh process
			}
			if errors.Is(err, harness.ErrWedged) {
				r.Violate("C10", p.signature("no-recovery"), fmt.Sprintf("after one transient fault (%s) block %d was never applied (requested repeatedly without progress); last daemon error: %s", p.describe(), h, harness.LastDaemonError()), cd)
				n.Stop()
				return nil
			}
			n.Stop()
			return fmt.Errorf("%v [case: block %d %s %s; injected=%d attempt=%d]", err, p.Block, p.Label, p.describe(), atomic.LoadInt64(&injected), atomic.LoadInt64(&attempt))
		}
		d, err := harness.TakeDump(n.RO, harness.DumpOptions{DropBackfill: true, KeepRows: h == p.Block})
		if err != nil {
			n.Stop()
			return err
		}
		if want, ok := rm.Meta.PerHeight[h]; ok && d.Total != want {
			detail := fmt.Sprintf("after one transient fault (%s) the state committed at height %d differs from the fault-free run", p.describe(), h)
			if h == p.Block {
				detail += " — the block was committed with part of its effects missing or altered"
				// rebuild the reference rows of this height for a readable diff
				if rd := referenceRows(c, p.Dir, p.Block); rd != nil {
					detail += "\n(A = fault-free, B = with fault)\n" + joinLines(harness.DiffDumps(rd, d), 8)
				}
			}
			what := "diverged"
			if h == p.Block {
				what = "committed-short"
			}
			r.Violate("C10", p.signature(what), detail, cd)
			n.Stop()
			return nil
		}
		r.Count("states_compared", 1)
	}
	r.Info["injected"] = atomic.LoadInt64(&injected)
	r.Count("completed", 1)
	n.Stop()
	vdriver.Set(nil)
	return nil
}

// referenceRows re-applies block b from its checkpoint without faults and dumps rows (for diffs only).
func referenceRows(c *forge.Chain, dir string, b uint32) *harness.Dump {
	dbp := filepath.Join(dir, fmt.Sprintf("refrows-%d-%d", b, os.Getpid()))
	if copyFile(filepath.Join(dir, fmt.Sprintf("ckpt-%d.db", b-1)), dbp+".v4") != nil {
		return nil
	}
	defer os.Remove(dbp + ".v4")
	vdriver.Set(nil)
	res, err := Replay(c, ReplayOpts{DBPath: dbp, ShortAvg: 12, Upto: b, KeepRows: true})
	if err != nil {
		return nil
	}
	return res.Dump
}

func checkC10(c *Ctx) *orch.Outcome {
	o := c.NewOutcome("fault_enumeration")
	o.Rule = "one evaluation = one transient fault: (special block, k-th database statement of the first attempt returns an error instead of executing) or (special block, upstream request, failure mode ∈ {JSON-RPC error, HTTP 500, truncated body, connection reset}), plus sampled pairs. After the fault the real daemon continues (or is resumed by a fresh process if it stops); every state committed at b..b+3 is compared with the fault-free reference. " +
		"Distinct non-trivial = distinct (block label, statement call-site stratum | upstream object kind × failure mode) where the fault was really injected."
	o.Assumptions = []string{
		"faults are injected at statement / request boundaries only (where the real system can fail) and are transient by construction",
		"operating-system faults: strace fails the N-th pwrite64 (ENOSPC / EIO) or unlink (EIO) of each thread on the database or its journal; the count is per thread, so one case may inject a short burst of failures instead of one",
		"a daemon that stops after a fault (log.Fatal, panic) is crash-stop: counted, resumed by a fresh process, same ledger demanded",
		"compressed eras; averaging window 12",
	}
	seed := c.Seed
	dir := c.R.JobDir(fmt.Sprintf("c10-chain-%d", seed))
	pj, _ := json.Marshal(richParams{Dir: dir, Seed: seed})
	fr := c.R.Run([]orch.Job{{Kind: "rich.forge", Name: "c10-rich-forge", Seed: seed, Params: pj, Timeout: 1200}})
	o.Merge(fr)
	if fr[0].Crashed || len(fr[0].Inconclusive) > 0 {
		o.Inconclusive = append(o.Inconclusive, "reference chain could not be forged: "+clipS(fr[0].Stderr, 800))
		return o
	}
	rm, err := loadRich(dir)
	if err != nil {
		o.Inconclusive = append(o.Inconclusive, err.Error())
		return o
	}
	rng := rand.New(rand.NewSource(seed))
	var cases []c10Params
	upKinds := []harness.FaultKind{harness.RPCError, harness.HTTP500, harness.Truncated, harness.ConnReset}
	totalStmts, totalReqs := 0, 0
	for _, b := range rm.Special {
		prof := rm.Profiles[b]
		totalStmts += len(prof.Stmts)
		totalReqs += len(prof.Reqs)
		// database statements
		seen := map[string]int{}
		for _, st := range prof.Stmts {
			key := st.Stratum() + "|" + clipS(st.SQL, 40)
			seen[key]++
			take := c.Thorough()
			if !take {
				// quick: first occurrence of every (call site, statement shape) + the last one + a few random
				take = seen[key] == 1 || st.K == len(prof.Stmts) || rng.Intn(40) == 0
			}
			if take {
				cases = append(cases, c10Params{Dir: dir, Block: b, Label: prof.Label, K: st.K, Stmt: st.Kind + " " + st.SQL, Site: st.Stratum()})
			}
		}
		// upstream requests
		seenReq := map[string]int{}
		for i := range prof.Reqs {
			rq := prof.Reqs[i]
			seenReq[rq.What]++
			for ki, fk := range upKinds {
				take := c.Thorough()
				if !take {
					take = (seenReq[rq.What] == 1 && ki == int(b)%len(upKinds)) || (seenReq[rq.What] == 2 && ki == 0) || rng.Intn(60) == 0
				}
				if take {
					cases = append(cases, c10Params{Dir: dir, Block: b, Label: prof.Label, Req: &prof.Reqs[i], Fault: fk})
				}
			}
		}
		// the same block-level request fails twice in a row (directory block, factoid block)
		twice := map[string]bool{}
		for i := range prof.Reqs {
			rq := prof.Reqs[i]
			if (rq.Method == "dblock-by-height" || rq.Method == "fblock-by-height") && !twice[rq.Method] {
				twice[rq.Method] = true
				cases = append(cases, c10Params{Dir: dir, Block: b, Label: prof.Label, Req: &prof.Reqs[i], Fault: upKinds[(int(b)+1)%len(upKinds)], Twice: true})
			}
		}
		// pairs: a second statement failure in the retry attempt
		npairs := 2
		if c.Thorough() {
			npairs = 12
		}
		for i := 0; i < npairs && len(prof.Stmts) > 2; i++ {
			k1 := 1 + rng.Intn(len(prof.Stmts))
			k2 := 1 + rng.Intn(len(prof.Stmts))
			st := prof.Stmts[k1-1]
			st2 := prof.Stmts[k2-1]
			cases = append(cases, c10Params{Dir: dir, Block: b, Label: prof.Label, K: k1, K2: k2, Stmt: st.Kind + " " + st.SQL, Site: st.Stratum() + "+pair",
				Site2: st2.Stratum(), Stmt2: st2.Kind + " " + st2.SQL})
		}
	}
	if !c.Thorough() && len(cases) > 700 {
		// BEGIN and COMMIT of every special block are always kept; the rest is sampled
		var must, rest []c10Params
		for _, cs := range cases {
			if (cs.Req == nil && cs.K2 == 0 && (strings.HasPrefix(cs.Stmt, "begin") || strings.HasPrefix(cs.Stmt, "commit"))) || cs.Twice {
				must = append(must, cs)
			} else {
				rest = append(rest, cs)
			}
		}
		rng.Shuffle(len(rest), func(i, j int) { rest[i], rest[j] = rest[j], rest[i] })
		cases = append(must, rest[:700-len(must)]...)
	}
	// operating-system faults (strace fault injection on the database and journal files): disk full and I/O
	// errors on writes, failing journal deletion
	nDB := len(cases)
	if _, err := exec.LookPath("strace"); err == nil {
		whens := []int{1, 2, 4}
		if c.Thorough() {
			whens = []int{1, 2, 3, 4, 5, 6, 8, 11, 15}
		}
		for bi, b := range rm.Special {
			prof := rm.Profiles[b]
			for wi, w := range whens {
				errno := []string{"ENOSPC", "EIO"}[(bi+wi)%2]
				if c.Thorough() {
					cases = append(cases, c10Params{Dir: dir, Block: b, Label: prof.Label, OS: fmt.Sprintf("pwrite64:%s:%d", []string{"EIO", "ENOSPC"}[(bi+wi)%2], w)})
				}
				cases = append(cases, c10Params{Dir: dir, Block: b, Label: prof.Label, OS: fmt.Sprintf("pwrite64:%s:%d", errno, w)})
			}
			cases = append(cases, c10Params{Dir: dir, Block: b, Label: prof.Label, OS: "unlink:EIO:1"})
		}
	} else {
		o.Extra["os_faults"] = "strace not available: operating-system faults not run"
	}
	_ = nDB
	type outcome struct {
		first, resume *orch.Result
	}
	outs := make([]outcome, len(cases))
	sem := make(chan struct{}, c.R.Parallel)
	done := make(chan int, len(cases))
	for i := range cases {
		go func(i int) {
			sem <- struct{}{}
			defer func() { <-sem; done <- i }()
			p := cases[i]
			p.DBPath = filepath.Join(c.R.Scratch, fmt.Sprintf("c10-db-%d", i))
			pj, _ := json.Marshal(p)
			job := orch.Job{Kind: "c10.fault", Name: fmt.Sprintf("c10-fault-%d", i), Params: pj, Timeout: 300, Race: c.Thorough() && i%16 == 0}
			if p.OS != "" {
				job.Race = false
				job.Dir = c.R.JobDir(job.Name)
				job.Wrap = p.straceWrap()
			}
			res := c.R.RunOne(&job)
			if p.OS != "" {
				if lg, err := os.ReadFile(filepath.Join(job.Dir, "strace.log")); err == nil {
					if res.Info == nil {
						res.Info = map[string]interface{}{}
					}
					res.Info["injected"] = float64(strings.Count(string(lg), "(INJECTED)"))
				}
			}
			outs[i].first = res
			stopped := res.Crashed || res.Info["crash_stop"] != nil
			if stopped {
				sig, _ := crashSignature(res.Stderr)
				if res.Crashed && sig == "lab-crash" {
					os.RemoveAll(job.Dir)
					return
				}
				p.Resume = true
				pj, _ := json.Marshal(p)
				rj := orch.Job{Kind: "c10.fault", Name: fmt.Sprintf("c10-resume-%d", i), Params: pj, Timeout: 300}
				outs[i].resume = c.R.RunOne(&rj)
				os.RemoveAll(rj.Dir)
			}
			os.RemoveAll(job.Dir)
			for _, suf := range []string{".v4", ".v4-journal", ".v4-wal", ".v4-shm"} {
				os.Remove(p.DBPath + suf)
			}
		}(i)
	}
	for range cases {
		<-done
	}
	strata := map[string]bool{}
	crashStops := map[string]int{}
	var all []*orch.Result
	injected := 0
	osInjected := 0
	races := 0
	for i, oc := range outs {
		p := cases[i]
		if oc.first == nil {
			continue
		}
		races += oc.first.RaceReports
		if oc.first.Crashed {
			sig, msg := crashSignature(oc.first.Stderr)
			if sig == "lab-crash" {
				o.Inconclusive = append(o.Inconclusive, fmt.Sprintf("case %d: %s", i, msg))
				continue
			}
			crashStops[clipS(sig, 80)]++
		} else if cs := oc.first.Info["crash_stop"]; cs != nil {
			crashStops[fmt.Sprint(cs)]++
		}
		inj := oc.first.Crashed
		if v, ok := oc.first.Info["injected"].(float64); ok && v > 0 {
			inj = true
		}
		if inj {
			injected++
			if p.OS != "" {
				osInjected++
				f := strings.Split(p.OS, ":")
				strata[fmt.Sprintf("%s|os|%s|%s", p.Label, f[0], f[1])] = true
			} else if p.Req != nil {
				strata[fmt.Sprintf("%s|up|%s|%s", p.Label, p.Req.What, p.Fault)] = true
			} else {
				strata[fmt.Sprintf("%s|db|%s|%s", p.Label, p.Site, clipS(p.Stmt, 30))] = true
			}
		}
		all = append(all, oc.first)
		if oc.resume != nil {
			if oc.resume.Crashed {
				o.Violations = append(o.Violations, orch.Violation{Property: "C10", Signature: p.signature("resume-crashed"),
					Detail: fmt.Sprintf("after a transient fault (%s) the daemon stopped, and the fresh process that resumed on its database died too:\n%s", p.describe(), clipS(oc.resume.Stderr, 1200)),
					Case:   map[string]interface{}{"block": p.Block, "label": p.Label, "fault": p.describe()}})
			}
			all = append(all, oc.resume)
		}
	}
	o.Merge(all)
	o.Evaluations = int64(len(cases))
	o.Nontrivial = int64(len(strata))
	o.Extra["faults_injected"] = injected
	o.Extra["os_level_cases_with_injected_faults"] = osInjected
	o.Extra["statements_in_special_blocks"] = totalStmts
	o.Extra["requests_in_special_blocks"] = totalReqs
	o.Extra["states_compared"] = orch.SumCounter(all, "states_compared")
	o.Extra["cases_with_the_daemon_catching_up"] = orch.SumCounter(all, "cases_with_the_daemon_catching_up")
	o.Extra["crash_stops_tolerated"] = crashStops
	o.Extra["race_reports"] = races
	if len(cases) > 0 {
		o.Samples = append(o.Samples, map[string]interface{}{"block": cases[0].Block, "label": cases[0].Label, "fault": cases[0].describe()},
			map[string]interface{}{"block": cases[len(cases)/2].Block, "label": cases[len(cases)/2].Label, "fault": cases[len(cases)/2].describe()})
	}
	if c.Thorough() {
		o.Exhaustive = true
		o.Extra["exhaustive_within"] = "every statement index and every request × 4 failure modes of the special blocks of one rich chain (single faults); pairs sampled"
	}
	o.MinNontrivial = 40
	return o
}
