package checks

import (
	"fmt"
	"os"
	"path/filepath"

	"github.com/Factom-Asset-Tokens/factom"
	"verif/lab/forge"
)

// SelfCheck validates the instrumentation itself:
//  (i) a chain synced through the sqlite3_verif wrapper gives the same dump as without it;
//  (ii) every forged directory block / entry block / entry re-parses with the factom client library.
func SelfCheck(args []string) int {
	dir, _ := os.MkdirTemp("", "verif-selfcheck-")
	defer os.RemoveAll(dir)
	e := StdEras(1000)
	c, _, ref, err := ForgeChain(ForgeOpts{Profile: "selfcheck", Seed: 42, Eras: e, Upto: e.V4 + 10, ShortAvg: 12, Dir: dir})
	if err != nil {
		fmt.Println("selfcheck: forging failed:", err)
		return 1
	}
	n := 0
	for _, h := range c.Heights() {
		b := c.Get(h)
		var db factom.DBlock
		if err := db.UnmarshalBinary(b.DBlock); err != nil {
			fmt.Println("selfcheck: dblock", h, err)
			return 1
		}
		for _, ents := range [][]forge.Entry{b.OPR, b.SPR, b.Tx} {
			for _, en := range ents {
				var fe factom.Entry
				if err := fe.UnmarshalBinary(en.Raw); err != nil || factom.ComputeEntryHash(en.Raw) != en.Hash {
					fmt.Println("selfcheck: entry", h, err)
					return 1
				}
				n++
			}
		}
	}
	r1, err := Replay(c, ReplayOpts{DBPath: filepath.Join(dir, "plain"), ShortAvg: 12})
	if err != nil {
		fmt.Println("selfcheck: plain replay:", err)
		return 1
	}
	r2, err := Replay(c, ReplayOpts{DBPath: filepath.Join(dir, "wrapped"), ShortAvg: 12, Wrap: true})
	if err != nil {
		fmt.Println("selfcheck: wrapped replay:", err)
		return 1
	}
	if r1.Dump.Total != ref.Total || r2.Dump.Total != ref.Total {
		fmt.Println("selfcheck: instrumentation is not transparent:", ref.Total, r1.Dump.Total, r2.Dump.Total)
		return 1
	}
	fmt.Printf("selfcheck ok: %d blocks, %d entries re-parsed, dump %s identical with and without the sqlite3_verif wrapper\n", len(c.Heights()), n, ref.Total)
	return 0
}
