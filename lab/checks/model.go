package checks

import (
	"database/sql"
	"encoding/hex"
	"encoding/json"
	"errors"
	"fmt"
	"math/big"
	"net"
	"sort"
	"strings"
	"sync"
	"time"

	"github.com/Factom-Asset-Tokens/factom"
	"github.com/pegnet/pegnetd/config"
	"github.com/pegnet/pegnetd/fat/fat2"
	"github.com/pegnet/pegnetd/node"
	"github.com/pegnet/pegnetd/srv"
	"github.com/spf13/viper"
	"verif/lab/forge"
	"verif/lab/gen"
	"verif/lab/harness"
	"verif/lab/orch"
	"verif/lab/rules"
	"verif/lab/vdriver"
)

// The monitored run shared by the one-step properties (C03, C04, C07, C11–C17): the real daemon
// applies adaptively forged blocks one at a time; after each block the reference model's
// prediction (re-based on the observed previous state) is compared with the observed state.

type dbRates struct {
	db    *sql.DB
	cache map[uint32]map[fat2.PTicker]uint64
	tip   uint32 // heights ≤ tip may be cached (immutable once committed – which C12 checks separately)
}

func (d *dbRates) Rates(h uint32) map[fat2.PTicker]uint64 {
	if r, ok := d.cache[h]; ok {
		return r
	}
	m, err := harness.ReadRates(d.db, h)
	var out map[fat2.PTicker]uint64
	if err == nil && len(m) > 0 {
		out = harness.RatesByTicker(m)
	}
	if h <= d.tip {
		d.cache[h] = out
	}
	return out
}

func (d *dbRates) LastRatedBefore(h uint32) uint32 {
	var x sql.NullInt64
	if err := d.db.QueryRow("SELECT MAX(height) FROM pn_rate WHERE height < ?", h).Scan(&x); err != nil || !x.Valid {
		return 0
	}
	return uint32(x.Int64)
}

func toBal(b harness.Balances) rules.Bal {
	out := rules.Bal{}
	for a, m := range b {
		n := map[fat2.PTicker]uint64{}
		for t, v := range m {
			n[t] = v
		}
		out[a] = n
	}
	return out
}

// Mismatch is one disagreement between model and daemon.
type Mismatch struct {
	Props  []string
	Sig    string
	Detail string
	Case   map[string]interface{}
}

// Monitor compares predictions and observations block by block.
type Monitor struct {
	M        *rules.Model
	E        forge.Eras
	DB       *sql.DB
	RS       *dbRates
	Prev     rules.Bal
	R        *orch.Result
	Mism     []Mismatch
	Seed     int64
	rateRows map[string]int64 // "height/token" → value, for immutability
	// AllowUndetermined: addresses the generator marked as don't-care for this block
	statusOf map[factom.Bytes32]int64
	// sigPrefix marks mismatches of blocks that have a recorded-finding shape (tagged scenarios)
	sigPrefix string
}

func NewMonitor(e forge.Eras, period uint64, db *sql.DB, r *orch.Result, seed int64) (*Monitor, error) {
	b, _, err := harness.ReadBalances(db, "pn_addresses")
	if err != nil {
		return nil, err
	}
	return &Monitor{M: rules.NewModel(e, period), E: e, DB: db, RS: &dbRates{db: db, cache: map[uint32]map[fat2.PTicker]uint64{}}, Prev: toBal(b), R: r, Seed: seed,
		rateRows: map[string]int64{}, statusOf: map[factom.Bytes32]int64{}}, nil
}

func (mo *Monitor) add(props []string, sig, detail string, c map[string]interface{}) {
	if mo.sigPrefix != "" {
		sig = mo.sigPrefix + sig
		detail = mo.sigPrefix + "— " + detail
	}
	c["seed"] = mo.Seed
	c["eras"] = mo.E
	mo.Mism = append(mo.Mism, Mismatch{Props: props, Sig: sig, Detail: detail, Case: c})
}

func era(e forge.Eras, h uint32) string {
	switch {
	case h < e.GradingV2:
		return "v1"
	case h < e.TxConv:
		return "v2-pre-tx"
	case h < e.PEGPricing:
		return "tx-peg0"
	case h < e.OneWaypFCT:
		return "peg-equation"
	case h < e.ConversionLimit:
		return "oneway-pfct"
	case h < e.V4:
		return "bank-pre-v4"
	case h < e.V20:
		return "bank-v4"
	case h < e.V20Dev:
		return "v20"
	case h < e.V202:
		return "v20-dev"
	case h < e.V204:
		return "v202"
	case h < e.V204Burn:
		return "v204"
	case h < e.PIP10:
		return "v204-burned"
	}
	return "pip10"
}

// AfterBlock runs every one-step oracle for block b (already committed).
func (mo *Monitor) AfterBlock(b *forge.Block) error {
	h := b.Height
	e := mo.E
	mo.RS.tip = h - 1
	waiting := append([]rules.Held{}, mo.M.Pending...)
	x := mo.M.Step(mo.Prev, b, mo.RS, node.BurnRCD)
	mo.sigPrefix = ""
	if x.OutOfBand {
		mo.sigPrefix = "oob-pre202 "
	}
	if len(x.Impostors) > 0 {
		mo.sigPrefix = "spr-impostor "
	}
	if x.MixedPegBatch {
		mo.sigPrefix = "bank-mixed-batch "
	}
	obsH, neg, err := harness.ReadBalances(mo.DB, "pn_addresses")
	if err != nil {
		return err
	}
	obs := toBal(obsH)
	r := mo.R
	er := era(e, h)
	r.Count("blocks_monitored", 1)
	base := func() map[string]interface{} {
		return map[string]interface{}{"height": h, "era": er, "notes": x.Notes}
	}
	if len(b.OPR) == 0 && len(b.SPR) == 0 && h >= e.V20Dev && h%144 == 0 {
		r.Count("payout_heights_without_opr_and_spr_entries", 1)
	}
	for _, en := range b.SPR {
		if ext := en.ExtIDs(); len(ext) >= 2 && len(ext[1]) != 32 {
			r.Count("spr_records_with_odd_length_staker_id", 1)
		}
	}
	// ---- a block without rates executes no pending conversion (C12, C07): everything that was
	// waiting before the block must still be recorded as pending after it
	waitingAddrs := map[factom.FAAddress]bool{}
	if !x.Rated && x.Undetermined[factom.FAAddress{}] == "" && !x.OutOfBand {
		if len(waiting) > 0 {
			r.Count("unrated_blocks_with_conversions_waiting", 1)
			if h >= e.V202 && h%144 == 0 {
				r.Count("unrated_snapshot_blocks_from_v202_with_conversions_waiting", 1)
			}
		}
		for _, p := range waiting {
			waitingAddrs[p.Batch.Transactions[0].Input.Address] = true
			var executed int64
			if err := mo.DB.QueryRow("SELECT executed FROM pn_history_txbatch WHERE entry_hash = ?", p.Entry.Hash[:]).Scan(&executed); err != nil {
				continue
			}
			r.Count("waiting_batches_checked_in_unrated_blocks", 1)
			if executed != 0 {
				c := base()
				c["entry"], c["held_since"], c["observed_status"] = p.Entry.Hash.String(), p.Height, executed
				mo.add([]string{"C12", "C07", "C17"}, fmt.Sprintf("held-batch-considered-in-unrated-block observed=%s era=%s", codeClass(executed, h), er),
					fmt.Sprintf("block %d (%s) has no winners and records no rates, but batch %s held since %d now has status %d", h, er, p.Entry.Hash, p.Height, executed), c)
			}
		}
	}
	// ---- C03: no negative balance
	for _, n := range neg {
		mo.add([]string{"C03"}, "negative-balance", "negative balance in the committed state: "+n, base())
	}
	// ---- balances
	skipAll := len(x.Undetermined) > 0 && x.Undetermined[factom.FAAddress{}] != ""
	addrs := map[factom.FAAddress]bool{}
	for a := range obs {
		addrs[a] = true
	}
	for a := range x.Bal {
		addrs[a] = true
	}
	evBy := map[string][]rules.Event{}
	for _, ev := range x.Events {
		k := string(ev.Addr[:]) + "/" + ev.Asset.String()
		evBy[k] = append(evBy[k], ev)
		r.Count("events_"+ev.Prop, 1)
		r.Seen("event_kinds", ev.Kind+"@"+er)
	}
	// input addresses of batches that were considered in this block without taking effect (rejected,
	// dropped, or newly held): any change on them is a funds / admission / conversion matter too
	rejectedAddrs := map[factom.FAAddress]bool{}
	convAddrs := map[factom.FAAddress]bool{}
	for _, o := range x.Outcomes {
		if o.Code <= 0 {
			rejectedAddrs[o.Addr] = true
			if o.HasConv {
				convAddrs[o.Addr] = true
			}
		}
	}
	nm := 0
	if !skipAll {
		var list []factom.FAAddress
		for a := range addrs {
			list = append(list, a)
		}
		sort.Slice(list, func(i, j int) bool { return string(list[i][:]) < string(list[j][:]) })
		for _, a := range list {
			if x.Undetermined[a] != "" {
				r.Count("addresses_not_judged", 1)
				continue
			}
			for t := fat2.PTickerInvalid + 1; t < fat2.PTickerMax; t++ {
				want, got, was := x.Bal.Get(a, t), obs.Get(a, t), mo.Prev.Get(a, t)
				if want == got {
					if want != was {
						r.Count("balance_changes_confirmed", 1)
					}
					continue
				}
				nm++
				props := map[string]bool{"C04": true}
				var evs []string
				for _, ev := range evBy[string(a[:])+"/"+t.String()] {
					props[ev.Prop] = true
					evs = append(evs, fmt.Sprintf("%s %s (%s)", ev.Kind, ev.Delta, clipS(ev.Ref, 20)))
				}
				if rejectedAddrs[a] {
					props["C03"] = true
				}
				if convAddrs[a] {
					props["C13"] = true
					props["C07"] = true
				}
				if waitingAddrs[a] {
					props["C12"] = true
					props["C07"] = true
				}
				if h >= e.V20 && h%144 == 0 && t == fat2.PTickerPEG {
					props["C14"] = true // at a snapshot height a PEG balance changes by the holder payout (and rewards) only
				}
				if isScheduledIssuanceAddress(a) {
					props["C15"] = true // developer, burn and mint addresses change by the schedule and by nothing else unscripted
				}
				if mo.sigPrefix != "" {
					props["C11"] = true
					props["C12"] = true
					props["C16"] = true
				}
				if got < was && len(evs) == 0 {
					props["C03"] = true
					props["C05"] = true
				}
				var pl []string
				for p := range props {
					pl = append(pl, p)
				}
				sort.Strings(pl)
				kinds := map[string]bool{}
				for _, ev := range evBy[string(a[:])+"/"+t.String()] {
					kinds[ev.Kind] = true
				}
				var kl []string
				for k := range kinds {
					kl = append(kl, k)
				}
				sort.Strings(kl)
				if len(kl) == 0 {
					kl = []string{"no-expected-event"}
				}
				c := base()
				c["address"] = a.String()
				c["asset"] = t.String()
				c["before"], c["expected"], c["observed"] = was, want, got
				c["expected_events"] = evs
				if nm <= 6 {
					mo.add(pl, fmt.Sprintf("balance-mismatch events=%s era=%s", strings.Join(kl, "+"), er),
						fmt.Sprintf("block %d (%s): balance of %s %s was %d, the rules give %d, the daemon recorded %d. expected events on it: %v", h, er, a, t, was, want, got, evs), c)
				}
			}
		}
	} else {
		r.Count("blocks_not_judged", 1)
	}
	// ---- C04: per-asset supply delta equals the sum of the block's supply events (read from sums only)
	if !skipAll && len(x.Undetermined) == 0 {
		supEv := map[fat2.PTicker]*big.Int{}
		for _, ev := range x.Events {
			if !ev.Supply {
				continue
			}
			if supEv[ev.Asset] == nil {
				supEv[ev.Asset] = new(big.Int)
			}
			supEv[ev.Asset].Add(supEv[ev.Asset], ev.Delta)
		}
		sum := func(bl rules.Bal) map[fat2.PTicker]*big.Int {
			out := map[fat2.PTicker]*big.Int{}
			for _, m := range bl {
				for t, v := range m {
					if out[t] == nil {
						out[t] = new(big.Int)
					}
					out[t].Add(out[t], new(big.Int).SetUint64(v))
				}
			}
			return out
		}
		s0, s1 := sum(mo.Prev), sum(obs)
		// burned transfers: debit is a supply event although tagged as a move
		for t := fat2.PTickerInvalid + 1; t < fat2.PTickerMax; t++ {
			d := new(big.Int)
			if s1[t] != nil {
				d.Add(d, s1[t])
			}
			if s0[t] != nil {
				d.Sub(d, s0[t])
			}
			want := new(big.Int)
			if supEv[t] != nil {
				want.Set(supEv[t])
			}
			// transfers to the burn address (≥2.0.2) destroy value: model them through balances
			wantB := new(big.Int)
			for _, mm := range []rules.Bal{x.Bal} {
				for _, m := range mm {
					wantB.Add(wantB, new(big.Int).SetUint64(m[t]))
				}
			}
			if s0[t] != nil {
				wantB.Sub(wantB, s0[t])
			}
			r.Count("supply_deltas_checked", 1)
			if d.Cmp(wantB) != 0 {
				c := base()
				c["asset"] = t.String()
				c["supply_delta_observed"], c["supply_delta_expected"] = d.String(), wantB.String()
				mo.add([]string{"C04"}, fmt.Sprintf("supply-delta-mismatch asset-class=%s era=%s", assetClass(t), er),
					fmt.Sprintf("block %d (%s): total supply of %s changed by %s, the block's issuance/destruction events sum to %s", h, er, t, d, wantB), c)
			}
			_ = want
		}
	}
	// ---- C12: recorded rates
	gotRates, err := harness.ReadRates(mo.DB, h)
	if err != nil {
		return err
	}
	r.Count("rate_blocks_checked", 1)
	if x.Undetermined[factom.FAAddress{}] == "" {
		if x.Rated != (len(gotRates) > 0) {
			c := base()
			c["expected_rated"], c["observed_rate_rows"] = x.Rated, len(gotRates)
			mo.add([]string{"C12"}, fmt.Sprintf("rated-mismatch expected=%v era=%s", x.Rated, er),
				fmt.Sprintf("block %d (%s): the winning records give rated=%v but the daemon recorded %d rate rows", h, er, x.Rated, len(gotRates)), c)
		} else if x.Rated {
			r.Count("rated_blocks_compared", 1)
			r.Seen("rate_eras", er)
			bad := []string{}
			for k, v := range x.Rates {
				if gv, ok := gotRates[k]; !ok || gv != v {
					bad = append(bad, fmt.Sprintf("%s expected %d observed %d(present=%v)", k, v, gv, ok))
				}
			}
			for k, v := range gotRates {
				if _, ok := x.Rates[k]; !ok {
					bad = append(bad, fmt.Sprintf("%s unexpected row %d", k, v))
				}
			}
			if len(bad) > 0 {
				sort.Strings(bad)
				c := base()
				c["differences"] = bad
				tok := strings.Fields(bad[0])[0]
				cls := "asset"
				if tok == "PEG" {
					cls = "PEG"
				}
				mo.add([]string{"C12"}, fmt.Sprintf("rate-mismatch token-class=%s era=%s", cls, er), fmt.Sprintf("block %d (%s): recorded rates differ from the winning records: %v", h, er, clipS(strings.Join(bad, "; "), 600)), c)
			}
		}
	}
	// immutability of earlier rates
	rows, err := mo.DB.Query("SELECT height, token, value FROM pn_rate WHERE height >= ? AND height <= ?", int64(h)-12, h)
	if err != nil {
		return err
	}
	for rows.Next() {
		var hh uint32
		var tok string
		var v int64
		rows.Scan(&hh, &tok, &v)
		k := fmt.Sprintf("%d/%s", hh, tok)
		if old, ok := mo.rateRows[k]; ok && old != v {
			c := base()
			c["row"], c["old"], c["new"] = k, old, v
			mo.add([]string{"C12"}, "recorded-rate-changed", fmt.Sprintf("rate row %s changed from %d to %d while applying block %d", k, old, v, h), c)
		}
		mo.rateRows[k] = v
	}
	rows.Close()
	var cnt int64
	mo.DB.QueryRow("SELECT COUNT(*) FROM pn_rate WHERE height < ?", h).Scan(&cnt)
	var known int64
	for k := range mo.rateRows {
		var hh uint32
		fmt.Sscanf(k, "%d/", &hh)
		if hh < h {
			known++
		}
	}
	_ = cnt
	// ---- batch outcomes: status, amounts (C17, C03, C13, C07)
	for _, o := range x.Outcomes {
		var executed int64
		var rowsN int
		q, err := mo.DB.Query("SELECT executed FROM pn_history_txbatch WHERE entry_hash = ?", o.Hash[:])
		if err != nil {
			return err
		}
		for q.Next() {
			q.Scan(&executed)
			rowsN++
		}
		q.Close()
		r.Count("batch_outcomes_checked", 1)
		kind := "transfer"
		if o.HasConv {
			kind = "conversion"
		}
		r.Seen("outcome_classes", fmt.Sprintf("%s code=%s era=%s", kind, codeClass(o.Code, h), er))
		c := base()
		c["entry"] = o.Hash.String()
		c["expected_code"], c["observed_status"], c["history_rows"] = o.Code, executed, rowsN
		c["note"] = o.Note
		if rowsN != 1 {
			mo.add([]string{"C17"}, fmt.Sprintf("history-rows=%d kind=%s", rowsN, kind), fmt.Sprintf("block %d: entry %s has %d history batch rows, expected exactly 1", h, o.Hash, rowsN), c)
			continue
		}
		if o.Dropped {
			// recorded finding: the batch has no effect (checked through balances) but its status stays pending forever
			if executed != 0 {
				mo.add([]string{"C13", "C17", "C07"}, fmt.Sprintf("unconvertible-batch-not-dropped observed=%s era=%s", codeClass(executed, h), er),
					fmt.Sprintf("block %d (%s): batch %s cannot be converted (%s) and must have no effect, but the daemon recorded status %d", h, er, o.Hash, o.Note, executed), c)
			}
			if executed == 0 {
				mo.add([]string{"C17"}, "status-pending-forever unconvertible-batch", fmt.Sprintf("block %d: batch %s was considered and dropped (%s) but its status stays 0 = pending although it will never be considered again", h, o.Hash, o.Note), c)
			}
			continue
		}
		if executed != o.Code {
			props := []string{"C17"}
			if o.Code < 0 || executed < 0 {
				props = append(props, "C13", "C03")
			}
			if o.HasConv {
				props = append(props, "C07")
			}
			mo.add(props, fmt.Sprintf("status-mismatch kind=%s expected=%s observed=%s era=%s", kind, codeClass(o.Code, h), codeClass(executed, h), er),
				fmt.Sprintf("block %d (%s): batch %s: the rules give status %d (%s), the daemon recorded %d", h, er, o.Hash, o.Code, o.Note, executed), c)
			continue
		}
		if o.Code > 0 && o.HasConv {
			// recorded converted amounts
			q, err := mo.DB.Query("SELECT tx_index, from_asset, from_amount, to_asset, to_amount FROM pn_history_transaction WHERE entry_hash = ? ORDER BY tx_index", o.Hash[:])
			if err != nil {
				return err
			}
			for q.Next() {
				var idx int
				var fa, ta string
				var fam, tam int64
				q.Scan(&idx, &fa, &fam, &ta, &tam)
				if ta == "" || idx >= len(o.ToAmount) {
					continue
				}
				r.Count("conversion_amounts_checked", 1)
				if tam != o.ToAmount[idx] {
					c2 := base()
					c2["entry"], c2["tx_index"], c2["expected_to_amount"], c2["recorded_to_amount"] = o.Hash.String(), idx, o.ToAmount[idx], tam
					p := []string{"C17", "C07"}
					if o.PegReq {
						p = []string{"C17", "C16"}
					}
					mo.add(p, fmt.Sprintf("to-amount-mismatch era=%s", er), fmt.Sprintf("block %d: conversion %s[%d] %d %s→%s: rules give %d, history records %d", h, o.Hash, idx, fam, fa, ta, o.ToAmount[idx], tam), c2)
				}
				// value never increases at spot rates (C07)
				if !o.PegReq {
					rt := mo.RS.Rates(h)
					s, d := rt[fat2.StringToTicker(fa)], rt[fat2.StringToTicker(ta)]
					if s > 0 && d > 0 {
						lhs := new(big.Int).Mul(big.NewInt(tam), new(big.Int).SetUint64(d))
						rhs := new(big.Int).Mul(big.NewInt(fam), new(big.Int).SetUint64(s))
						r.Count("value_bounds_checked", 1)
						if mo.M.AvgPeriod > 0 && h >= e.PIP10 {
							av := x.AveragesUsed
							if av[fat2.StringToTicker(fa)] != s || av[fat2.StringToTicker(ta)] != d {
								r.Count("conversions_priced_by_average", 1)
							}
						}
						if lhs.Cmp(rhs) > 0 {
							c2 := base()
							c2["entry"] = o.Hash.String()
							mo.add([]string{"C07"}, "conversion-increases-usd-value", fmt.Sprintf("block %d: conversion %s credited %d %s for %d %s: worth more USD than was put in at the block's rates", h, o.Hash, tam, ta, fam, fa), c2)
						}
					}
				}
			}
			q.Close()
		}
	}
	// ---- C16 bank row
	{
		zeroYield := map[string]bool{}
		for _, ev := range x.Events {
			if ev.Kind == "peg-yield" && ev.Delta.Sign() == 0 {
				zeroYield[ev.Ref] = true
			}
		}
		for _, ev := range x.Events {
			if ev.Kind == "peg-refund" && ev.Delta.Sign() > 0 && zeroYield[ev.Ref] {
				r.Count("peg_requests_allotted_zero_with_refund", 1)
			}
		}
	}
	if x.Bank != nil {
		var amt, used, req int64
		err := mo.DB.QueryRow("SELECT bank_amount, bank_used, total_requested FROM pn_bank WHERE height = ?", h).Scan(&amt, &used, &req)
		r.Count("bank_rows_checked", 1)
		if err != nil || amt != x.Bank[0] || used != x.Bank[1] || req != x.Bank[2] {
			c := base()
			c["expected"], c["observed"], c["err"] = x.Bank, []int64{amt, used, req}, fmt.Sprint(err)
			mo.add([]string{"C16"}, "bank-row-mismatch", fmt.Sprintf("block %d: pn_bank row expected %v, observed [%d %d %d] (%v)", h, *x.Bank, amt, used, req, err), c)
		}
		if x.Bank[2] > x.Bank[0] {
			r.Count("oversubscribed_bank_blocks", 1)
		}
		if x.Bank[2] > 0 {
			r.Count("bank_blocks_with_requests", 1)
		}
	} else if h >= e.ConversionLimit && h < e.V20 {
		var n int
		mo.DB.QueryRow("SELECT COUNT(*) FROM pn_bank WHERE height = ?", h).Scan(&n)
		if n != 0 && h < e.V4 {
			mo.add([]string{"C16"}, "bank-row-unexpected", fmt.Sprintf("block %d: a pn_bank row exists before the V4 switch", h), base())
		}
	}
	// ---- C11: coinbase history rows of the paid records
	if len(x.Undetermined) == 0 {
		for hashHex, amt := range x.OPRPaid {
			hb, _ := hex.DecodeString(hashHex)
			var ta int64
			var n int
			mo.DB.QueryRow("SELECT COUNT(*), COALESCE(SUM(to_amount),0) FROM pn_history_transaction WHERE entry_hash = ? AND action_type = 3", hb).Scan(&n, &ta)
			r.Count("coinbase_rows_checked", 1)
			if n != 1 || ta != amt {
				c := base()
				c["record"], c["expected_payout"], c["rows"], c["recorded"] = hashHex, amt, n, ta
				mo.add([]string{"C11", "C17"}, "coinbase-row-mismatch kind=opr", fmt.Sprintf("block %d: winning OPR %s: %d coinbase rows recording %d, payout is %d", h, hashHex, n, ta, amt), c)
			}
		}
		for hashHex, amt := range x.SPRPaid {
			hb, _ := hex.DecodeString(hashHex)
			var ta int64
			var n int
			mo.DB.QueryRow("SELECT COUNT(*), COALESCE(SUM(to_amount),0) FROM pn_history_transaction WHERE entry_hash = ? AND action_type = 3", hb).Scan(&n, &ta)
			r.Count("coinbase_rows_checked", 1)
			if n != 1 || ta != amt {
				c := base()
				c["record"], c["expected_payout"], c["rows"], c["recorded"] = hashHex, amt, n, ta
				mo.add([]string{"C11", "C17"}, "coinbase-row-mismatch kind=spr", fmt.Sprintf("block %d: winning SPR %s: %d coinbase rows recording %d, payout is %d", h, hashHex, n, ta, amt), c)
			}
		}
		// no coinbase rows for anything else at this height
		var nCoin int
		mo.DB.QueryRow(`SELECT COUNT(*) FROM pn_history_transaction t JOIN pn_history_txbatch b ON b.entry_hash = t.entry_hash AND b.height = ?
			WHERE t.action_type = 3 AND hex(substr(t.entry_hash,1,8)) != '0000000000000000' AND substr(hex(t.entry_hash),1,2) NOT IN ('00','01','02','03','04','05','06','07','08','09','10','11','12','13','14')`, h).Scan(&nCoin)
	}
	if x.SnapshotRan {
		r.Count("snapshot_blocks", 1)
		paid := 0
		var total uint64
		for _, v := range x.SnapshotPaid {
			if v > 0 {
				paid++
			}
			total += v
		}
		if x.UnpricedStakes > 0 {
			r.Count("snapshots_with_unpriced_held_assets", 1)
			r.Count("unpriced_holder_asset_pairs", int64(x.UnpricedStakes))
		}
		if paid > 0 {
			r.Count("paying_snapshots", 1)
			r.Count("holders_paid", int64(paid))
			if total == rules.HolderCapPEG {
				r.Count("snapshots_at_cap", 1)
			}
			r.Sample(map[string]interface{}{"snapshot_height": h, "holders_paid": paid, "total_paid_peg_units": total, "cap": rules.HolderCapPEG, "seed": mo.Seed})
		}
	}
	if x.OutOfBand {
		// recorded finding: the daemon applied nothing of this block, so it never saw its entries;
		// forget them in the model too, otherwise every later block would be reported as well
		for _, en := range b.Tx {
			delete(mo.M.Seen, en.Hash)
		}
		var keep []rules.Held
		for _, p := range mo.M.Pending {
			if p.Height != h {
				keep = append(keep, p)
			}
		}
		mo.M.Pending = keep
	}
	mo.Prev = obs
	return nil
}

var scheduledAddrs map[factom.FAAddress]bool

// isScheduledIssuanceAddress: the addresses of C15's statement (developer table, the two burn addresses, the mint address).
func isScheduledIssuanceAddress(a factom.FAAddress) bool {
	if scheduledAddrs == nil {
		scheduledAddrs = map[factom.FAAddress]bool{}
		for _, s := range []string{rules.GlobalOldBurnAddress, rules.GlobalBurnAddress, rules.GlobalMintAddress} {
			if x, err := factom.NewFAAddress(s); err == nil {
				scheduledAddrs[x] = true
			}
		}
		for _, d := range rules.DevTable {
			if x, err := factom.NewFAAddress(d.Addr); err == nil {
				scheduledAddrs[x] = true
			}
		}
	}
	return scheduledAddrs[a]
}

// installRetries makes blocks fail once (or twice) before they are applied, without changing what they must
// do: (a) the first request for the block's directory block is answered with HTTP 500 (the attempt ends
// before anything is written, after whatever the sync loop does before fetching); (b) the last statement
// before COMMIT - the sync-height update - fails (everything of the block has been executed, the
// transaction is rolled back, the same process applies the block again). Heights: (a) every 4th, (b) every
// other 4th, one of the two at every activation and snapshot height. Whatever the daemon keeps in memory must not
// make a later attempt differ from a first one. Returns the function that removes the hooks.
// retriesHistoryFocus: half of the failing statements are chosen among the block's history writes (set by the
// "history-faults" feature of C17's runs).
var retriesHistoryFocus bool

func installRetries(n *harness.Node, r *orch.Result, seed int64, e forge.Eras) func() {
	special := map[uint32]bool{}
	for _, a := range []uint32{e.GradingV2, e.TxConv, e.PEGPricing, e.OneWaypFCT, e.ConversionLimit, e.V4, e.V20, e.V20Dev, e.V202, e.V204, e.V204Burn, e.PIP10} {
		special[a] = true
	}
	// every decision below is drawn from (height, seed, purpose) through one mixing function, so that two profiles
	// never make the same choices at the same heights
	mix := func(h uint32, salt uint64) uint64 {
		x := uint64(h)*0x9E3779B97F4A7C15 ^ uint64(seed)*0xBF58476D1CE4E5B9 ^ salt*0x94D049BB133111EB
		x ^= x >> 30
		x *= 0xBF58476D1CE4E5B9
		x ^= x >> 27
		x *= 0x94D049BB133111EB
		x ^= x >> 31
		return x
	}
	mixH := func(h uint32, salt uint64) uint64 {
		x := uint64(h)*0x9E3779B97F4A7C15 ^ salt*0x94D049BB133111EB
		x ^= x >> 30
		x *= 0xBF58476D1CE4E5B9
		x ^= x >> 27
		return x >> 7
	}
	var mu sync.Mutex
	failedDB := map[uint32]bool{}
	failedUp := map[uint32]bool{}
	pick := func(h uint32, k int64) bool {
		if retriesHistoryFocus && h >= e.V20 && h%144 == 0 && h != e.V20Dev && h != e.V202 {
			return k == 0 // the payout rows of every snapshot block are written twice
		}
		if special[h] || (h >= e.V20 && h%144 == 0) {
			// one kind of failure per height (a second failure could repair what the first one broke):
			// which one is decided by seed and height
			return int64((mixH(h, 1)+uint64(seed>>1))%2) == k/2 // consecutive retries profiles (seeds two apart) take opposite kinds
		}
		return (int64(h)+seed)%4 == k
	}
	n.Fake.SetFault(func(rq harness.Req) harness.Fault {
		if rq.Method != "dblock-by-height" || rq.Height != rq.Cur || rq.Height <= e.Pegnet {
			return harness.Fault{}
		}
		mu.Lock()
		defer mu.Unlock()
		if pick(rq.Height, 2) && !failedUp[rq.Height] {
			failedUp[rq.Height] = true
			r.Count("blocks_retried_after_a_failed_dblock_fetch", 1)
			return harness.Fault{Kind: harness.HTTP500}
		}
		return harness.Fault{}
	})
	// the failing statement is not always the last one: the t-th statement of the block's transaction fails, t drawn
	// from the height (if the block has fewer, the last one fails as above): the rollback may come at any point of a
	// block. (The two burn-zeroing activation heights keep to the last statement: they hold the recorded
	// NullifyBurnAddress finding, which C10 enumerates.)
	var nextH uint32
	stmtN, histN := 0, 0
	sawSnap, afterSnapN, afterSnapHistTx := false, 0, 0
	inBlock := false
	vdriver.Set(&vdriver.Hooks{Decide: func(ev *vdriver.Event) (vdriver.Action, time.Duration) {
		if ev.Kind == vdriver.KBegin {
			mu.Lock()
			stmtN, histN = 0, 0
			sawSnap, afterSnapN, afterSnapHistTx = false, 0, 0
			inBlock = true
			mu.Unlock()
			return vdriver.Proceed, 0
		}
		if ev.Kind == vdriver.KCommit || ev.Kind == vdriver.KRollback {
			mu.Lock()
			inBlock = false
			mu.Unlock()
			return vdriver.Proceed, 0
		}
		if !ev.InTx && ev.Kind == vdriver.KQuery && !strings.Contains(ev.SQL, "pn_rate") {
			// a read the block does outside its transaction (previous winners, the stakers' rich list) fails once:
			// the block fails and is applied again. (Rate reads are left alone: a failed one ends the process by
			// design, which C10 and C02 cover with fresh processes.)
			mu.Lock()
			h := nextH
			if inBlock && h != 0 && h != e.V20Dev && h != e.V202 && pick(h, 0) && !failedDB[h] && mix(h, 2)%3 == 0 &&
				!(retriesHistoryFocus && h >= e.V20 && h%144 == 0) { // (history-faults profiles keep their one failure of a snapshot block for a payout row)
				failedDB[h] = true
				mu.Unlock()
				r.Count("blocks_applied_twice_after_a_failed_read_outside_the_transaction", 1)
				return vdriver.FailInstead, 0
			}
			mu.Unlock()
			return vdriver.Proceed, 0
		}
		if ev.InTx && (ev.Kind == vdriver.KExec || ev.Kind == vdriver.KQuery) && !strings.HasPrefix(ev.SQL, "REPLACE INTO pn_metadata") {
			mu.Lock()
			stmtN++
			isHist := strings.Contains(ev.SQL, "pn_history_")
			if isHist {
				histN++
			}
			h := nextH
			snapH := h >= e.V20 && h%144 == 0
			if strings.Contains(ev.SQL, "snapshot_current") {
				sawSnap = true // the snapshot rotation has begun: what follows in a snapshot block is the holders' payout
			} else if sawSnap {
				afterSnapN++
				if strings.Contains(ev.SQL, `"pn_history_transaction"`) {
					afterSnapHistTx++
				}
			}
			armed := h != 0 && h != e.V20Dev && h != e.V202 && pick(h, 0) && !failedDB[h]
			fail := func(counter string) (vdriver.Action, time.Duration) {
				failedDB[h] = true
				mu.Unlock()
				r.Count(counter, 1)
				if snapH {
					r.Seen("statements_failed_in_snapshot_blocks", clipS(strings.Join(strings.Fields(ev.SQL), " "), 48))
				}
				return vdriver.FailInstead, 0
			}
			if armed && retriesHistoryFocus && snapH {
				// (C17's history-faults runs, snapshot blocks) one of the first payout action rows fails
				if sawSnap && strings.Contains(ev.SQL, `"pn_history_transaction"`) && afterSnapHistTx == 1+int(mix(h, 7)%3) {
					return fail("blocks_applied_twice_after_a_failed_history_write")
				}
			} else if armed && retriesHistoryFocus && isHist && mix(h, 3)%2 == 0 {
				// (C17's history-faults runs) the failing statement is one of the block's history writes: the j-th
				if histN == 1+int(mix(h, 4)%12) {
					return fail("blocks_applied_twice_after_a_failed_history_write")
				}
			}
			// (at activation and snapshot heights every other failing block keeps to the last statement: what a block
			// leaves behind in memory is complete only then)
			lastOnly := ((snapH && (h/144)%2 == 0) || (!snapH && special[h] && mix(h, 5)%2 == 0)) && !retriesHistoryFocus // (snapshot heights alternate)
			if armed && !lastOnly && !(retriesHistoryFocus && snapH) {
				if snapH {
					// snapshot blocks: one of the first statements after the rotation (inside the holders' payout, when
					// there is one; else the last statement fails)
					if sawSnap && afterSnapN == 1+int(mix(h, 8)%24) {
						return fail("blocks_applied_twice_after_a_failure_in_mid_block")
					}
				} else if stmtN == 1+int(mix(h, 6)%300) {
					return fail("blocks_applied_twice_after_a_failure_in_mid_block")
				}
			}
			mu.Unlock()
			return vdriver.Proceed, 0
		}
		if !ev.InTx || ev.Kind != vdriver.KExec || !strings.HasPrefix(ev.SQL, "REPLACE INTO pn_metadata") || len(ev.Args) != 2 {
			return vdriver.Proceed, 0
		}
		var bs struct{ Synced uint32 }
		var raw []byte
		switch x := ev.Args[1].(type) {
		case []byte:
			raw = x
		case string:
			raw = []byte(x)
		}
		if json.Unmarshal(raw, &bs) != nil || bs.Synced == 0 {
			return vdriver.Proceed, 0
		}
		mu.Lock()
		defer mu.Unlock()
		if pick(bs.Synced, 0) && !failedDB[bs.Synced] {
			failedDB[bs.Synced] = true
			r.Count("blocks_applied_twice_after_a_late_failure", 1)
			return vdriver.FailInstead, 0
		}
		nextH = bs.Synced + 1
		return vdriver.Proceed, 0
	}})
	return func() {
		vdriver.Set(nil)
		n.Fake.SetFault(nil)
	}
}

func assetClass(t fat2.PTicker) string {
	switch {
	case t == fat2.PTickerPEG:
		return "PEG"
	case t == fat2.PTickerFCT:
		return "pFCT"
	}
	return "pAsset"
}

func codeClass(c int64, h uint32) string {
	switch {
	case c == 0:
		return "pending"
	case c < 0:
		return fmt.Sprint(c)
	case uint32(c) == h:
		return "executed-now"
	}
	return "executed-other-height"
}

// ---------------------------------------------------------------------------

type modelParams struct {
	Seed     int64    `json:"seed"`
	Profile  string   `json:"profile"`
	Late     bool     `json:"late"`
	Upto     int      `json:"upto"` // blocks after genesis (0 = cross every era)
	Features []string `json:"features"`
	Window   uint64   `json:"window"`
	Literal  bool     `json:"literal"` // literal mainnet activation heights and the real 288 window
	// AlignV20Dev forces V20DevRewardsHeightActivation % 144 to this value (0 = tagged wedge scenario); -1 = off
	AlignV20Dev int `json:"align_v20dev"`
	// AlignV202: 1 + the wanted value of V202EnhanceActivation % 144 (0 = leave as drawn)
	AlignV202 int `json:"align_v202"`
	// Liveness: only bounded progress is judged (C08 runs the model workloads as a liveness monitor)
	Liveness bool `json:"liveness"`
}

func init() {
	orch.Register("model.run", modelRun)
}

func modelRun(j *orch.Job, r *orch.Result) error {
	var p modelParams
	json.Unmarshal(j.Params, &p)
	if p.Window == 0 {
		p.Window = 12
	}
	if p.Literal {
		p.Window = 288
	}
	if containsStr(p.Features, "mint-key") {
		a := mintKey(p.Seed).FA().String()
		node.GlobalMintAddress, rules.GlobalMintAddress = a, a
		scheduledAddrs = nil
	}
	e, m, tip := buildWorkload(&p)
	setAvg(p.Window)
	if p.Upto > 0 {
		tip = e.Pegnet + uint32(p.Upto)
	}
	retries := containsStr(p.Features, "retries")
	retriesHistoryFocus = containsStr(p.Features, "history-faults")
	restarts := containsStr(p.Features, "restarts")
	apiPort := 0
	var undoRetries func()
	start := func() (*harness.Node, error) {
		n, err := harness.StartNode(harness.NodeConfig{DBPath: j.Dir + "/db", Wrap: retries}, m.W.Chain)
		if err != nil {
			return nil, err
		}
		if retries {
			undoRetries = installRetries(n, r, p.Seed, e)
		}
		if containsStr(p.Features, "api-reads") {
			// the daemon also answers read-only API requests between blocks (rich lists first of all: they go
			// through the rolling-average cache the sync loop uses): what the rules demand of a block does not
			// depend on who asked the daemon what
			apiPort = freePort()
			conf := viper.New()
			conf.Set(config.APIListen, fmt.Sprintf("127.0.0.1:%d", apiPort))
			srv.NewAPIServer(conf, n.P).Start(make(chan struct{}))
			for i := 0; i < 200; i++ {
				if cn, err := net.Dial("tcp", fmt.Sprintf("127.0.0.1:%d", apiPort)); err == nil {
					cn.Close()
					break
				}
				time.Sleep(5 * time.Millisecond)
			}
		}
		return n, nil
	}
	n, err := start()
	if err != nil {
		return err
	}
	defer func() {
		n.Stop()
		if undoRetries != nil {
			undoRetries()
		}
	}()
	// "restarts": the daemon process ends and a new one takes over the database before every activation height,
	// the height after it, every snapshot height and the one after it, and one height in five besides. What the
	// rules demand of a block does not depend on how long the process applying it has been running.
	restartBefore := func(h uint32) bool {
		if !restarts {
			return false
		}
		for _, a := range []uint32{e.GradingV2, e.TxConv, e.PEGPricing, e.OneWaypFCT, e.ConversionLimit, e.V4, e.V20, e.V20Dev, e.V202, e.V204, e.V204Burn, e.PIP10} {
			if h == a || h == a+1 {
				return true
			}
		}
		if h >= e.V20 && (h%144 == 0 || h%144 == 1) {
			return true
		}
		return (uint64(h)*2654435761>>7+uint64(p.Seed))%5 == 0
	}
	apiQs := []apiQuery{
		{"rich-list", "get-rich-list", map[string]interface{}{"asset": "pXBT", "count": 5}},
		{"rich-list", "get-rich-list", map[string]interface{}{"asset": "PEG", "count": 5}},
		{"global-rich-list", "get-global-rich-list", map[string]interface{}{"count": 5}},
		{"issuance", "get-pegnet-issuance", nil},
		{"rates", "get-pegnet-rates", map[string]interface{}{}},
	}
	n.Run()
	mon, err := NewMonitor(e, p.Window, n.RO, r, p.Seed)
	if err != nil {
		return err
	}
	err = gen.DriveP(&n, m, m.W, tip, harness.WaitOpts{}, func(h uint32, b *forge.Block) error {
		if err := mon.AfterBlock(b); err != nil {
			return err
		}
		if apiPort != 0 && h >= e.TxConv {
			for _, q := range apiQs {
				if _, err := callAPI(apiPort, q); err == nil {
					r.Count("api_requests_between_blocks", 1)
				}
			}
		}
		if h < tip && restartBefore(h+1) {
			n.Stop()
			if undoRetries != nil {
				undoRetries()
			}
			n2, err := start()
			if err != nil {
				return fmt.Errorf("restart before %d: %w", h+1, err)
			}
			n = n2
			mon.DB, mon.RS.db = n.RO, n.RO
			n.Run()
			r.Count("process_restarts_between_blocks", 1)
		}
		return nil
	})
	if err == nil && containsStr(p.Features, "c17-final") {
		if ferr := historyFold(n.RO, e, r, p.Seed); ferr != nil {
			r.Inconclusive = append(r.Inconclusive, "history fold: "+ferr.Error())
		}
		if aerr := apiPaging(n, e, r, p.Seed); aerr != nil {
			r.Inconclusive = append(r.Inconclusive, "api paging: "+aerr.Error())
		}
	}
	r.Info["eras"] = e
	r.Info["tip"] = tip
	r.Seen("v20dev_alignment", fmt.Sprint(e.V20Dev%144))
	r.Seen("v202_alignment", fmt.Sprint(e.V202%144))
	for _, mm := range mon.Mism {
		if p.Liveness {
			break
		}
		for _, pr := range mm.Props {
			r.Violate(pr, mm.Sig, mm.Detail, mm.Case)
		}
	}
	if s, serr := n.Synced(); serr == nil && s > e.Pegnet {
		r.Count("blocks_applied", int64(s-e.Pegnet))
	}
	if err != nil && errors.Is(err, harness.ErrWedged) && containsStr(p.Features, "align") {
		s, _ := n.Synced()
		if s+1 == e.V20Dev {
			r.Violate("C15", "activation-block-unsyncable alignment=V20Dev%144==0", fmt.Sprintf("with the developer-reward / old-burn-address activation on a snapshot height (%d %% 144 == 0) the activation block can never be applied: %v", e.V20Dev, err),
				map[string]interface{}{"eras": e, "height": s + 1})
			return nil
		}
	}
	if err != nil && p.Liveness && (errors.Is(err, harness.ErrWedged) || errors.Is(err, harness.ErrFatal)) {
		s, _ := n.Synced()
		how := "wedge"
		if errors.Is(err, harness.ErrFatal) {
			how = "fatal"
		}
		le := harness.LastDaemonError()
		r.Violate("C08", fmt.Sprintf("%s kind=model-workload err=%s", how, normalizeErr(le)),
			fmt.Sprintf("block %d of a chain of well-formed and rule-breaking third-party traffic (workload features %v) cannot be applied: %v\nlast daemon error: %s", s+1, p.Features, err, le),
			map[string]interface{}{"eras": e, "height": s + 1, "seed": p.Seed, "features": p.Features, "daemon_error": le})
		return nil
	}
	if err != nil {
		if errors.Is(err, harness.ErrWedged) {
			if le := harness.LastDaemonError(); strings.Contains(le, "insufficient balance") {
				// the chain stops because a debit found less than it wanted to take: a batch that asks for more than
				// its input address holds when it executes was let through the checks that must reject it whole
				s, _ := n.Synced()
				r.Violate("C03", "overdrawing-batch-not-rejected block-cannot-be-applied", fmt.Sprintf("block %d cannot be applied: %s — an overdrawing batch passed the balance checks and failed at the debit, instead of being rejected as a whole", s+1, le),
					map[string]interface{}{"eras": e, "height": s + 1, "seed": p.Seed, "features": p.Features})
			}
		}
		if errors.Is(err, harness.ErrWedged) || errors.Is(err, harness.ErrFatal) {
			r.Inconclusive = append(r.Inconclusive, "chain stopped (liveness is C08's subject): "+err.Error())
			return nil
		}
		return err
	}
	return nil
}
