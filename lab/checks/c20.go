package checks

import (
	"encoding/json"
	"fmt"
	"math/big"
	"math/rand"
	"reflect"
	"strings"

	"github.com/Factom-Asset-Tokens/factom"
	"github.com/pegnet/pegnetd/cmd"
	"github.com/pegnet/pegnetd/config"
	"github.com/pegnet/pegnetd/fat/fat2"
	"verif/lab/forge"
	"verif/lab/orch"
	"verif/lab/rules"
)

// C20 Canonical encoding and exact amounts — differential against a strict reference reader and
// exact big-integer arithmetic, over generated and mutated inputs.

type c20Params struct {
	Seed   int64 `json:"seed"`
	Inputs int   `json:"inputs"`
}

func init() {
	registry["C20"] = checkC20
	orch.Register("c20.run", c20Run)
}

func knownTicker(s string) bool { return fat2.StringToTicker(s) != fat2.PTickerInvalid }

type c20gen struct {
	rng   *rand.Rand
	keys  []forge.Key
	addrs []string
}

func (g *c20gen) addr() string { return g.addrs[g.rng.Intn(len(g.addrs))] }

func (g *c20gen) ticker() string {
	return fat2.PTicker(1 + g.rng.Intn(int(fat2.PTickerMax)-1)).String()
}

var interestingAmounts = []string{"0", "1", "2", "10", "99999999", "100000000", "9223372036854775806", "9223372036854775807", "9223372036854775808",
	"18446744073709551615", "18446744073709551616", "99999999999999999999999", "-1", "-0", "1e2", "1E2", "1.0", "1.5", "01", "0x10", "1_000", " 7", "\"5\"", "null", "true", "[]", "{}", "1e-2", "4294967296"}

func (g *c20gen) amount() string {
	if g.rng.Intn(3) == 0 {
		return interestingAmounts[g.rng.Intn(len(interestingAmounts))]
	}
	return fmt.Sprint(g.rng.Int63n(1 << uint(1+g.rng.Intn(62))))
}

// validBatch builds canonical JSON text (as a tree of strings so that mutations can splice it).
type jtx struct {
	addr, amount, typ string
	conv              string
	outs              [][2]string
	meta              string
}

func (g *c20gen) tx(from string) jtx {
	t := jtx{addr: from, typ: g.ticker()}
	if g.rng.Intn(2) == 0 {
		t.conv = g.ticker()
		t.amount = g.amount()
	} else {
		n := 1 + g.rng.Intn(3)
		total := new(big.Int)
		for i := 0; i < n; i++ {
			a := fmt.Sprint(g.rng.Int63n(1 << 40))
			b, _ := new(big.Int).SetString(a, 10)
			total.Add(total, b)
			t.outs = append(t.outs, [2]string{g.addr(), a})
		}
		t.amount = total.String()
		if g.rng.Intn(6) == 0 {
			t.amount = g.amount()
		}
	}
	if g.rng.Intn(8) == 0 {
		t.meta = []string{`"memo"`, `{"a":1}`, `[1,2]`, `17`, `null`, `{"a":1,"a":2}`}[g.rng.Intn(6)]
	}
	return t
}

func (t jtx) render(order int, dupKey string) string {
	input := fmt.Sprintf(`"address":"%s","amount":%s,"type":"%s"`, t.addr, t.amount, t.typ)
	switch order % 3 {
	case 1:
		input = fmt.Sprintf(`"amount":%s,"type":"%s","address":"%s"`, t.amount, t.typ, t.addr)
	case 2:
		input = fmt.Sprintf(`"type":"%s","address":"%s","amount":%s`, t.typ, t.addr, t.amount)
	}
	if dupKey == "input.amount" {
		input += `,"amount":` + t.amount
	}
	if dupKey == "input.address" {
		input = `"address":"` + t.addr + `",` + input
	}
	if dupKey == "input.type" {
		input += `,"type":"` + t.typ + `"`
	}
	if dupKey == "transfer.wrap" || dupKey == "transfer.wrap-int64" {
		// outputs whose sum equals the input only modulo 2^64
		x, _ := new(big.Int).SetString(t.amount, 10)
		if x != nil && x.IsInt64() && x.Int64() < 1<<40 && t.conv == "" {
			big1, big2, last := "9223372036854775808", "9223372036854775808", x.String()
			if dupKey == "transfer.wrap-int64" {
				big1, big2, last = "9223372036854775807", "9223372036854775807", new(big.Int).Add(x, big.NewInt(2)).String()
			}
			t.outs = [][2]string{{t.addr, big1}, {t.addr, big2}, {t.addr, last}}
		}
	}
	if dupKey == "input.extra" {
		input += `,"extra":1`
	}
	if dupKey == "input.missing-type" && len(t.amount) < 20 {
		// no "type" member, but the other members add up to the length the reader expects
		// (it accounts for the type with the 18-character error text of the invalid ticker)
		input = fmt.Sprintf(`"address":"%s","amount":%s,"typ":"%s"`, t.addr, t.amount, strings.Repeat("x", 20-len(t.amount)))
	}
	if dupKey == "input.missing-type-dup" && len(t.amount) < 9 {
		pad := 18 - 2*len(t.amount) + 1
		if pad >= 0 {
			input = fmt.Sprintf(`"address":"%s","amount":%s,"amount":%s,"t":"%s"`, t.addr, t.amount, t.amount, strings.Repeat("y", pad))
		}
	}
	body := `"input":{` + input + `}`
	if t.conv != "" {
		body += `,"conversion":"` + t.conv + `"`
	}
	if t.outs != nil {
		var os []string
		for i, o := range t.outs {
			s := fmt.Sprintf(`{"address":"%s","amount":%s}`, o[0], o[1])
			if dupKey == "transfer.amount" && i == 0 {
				s = fmt.Sprintf(`{"address":"%s","amount":%s,"amount":%s}`, o[0], o[1], o[1])
			}
			if dupKey == "transfer.extra" && i == 0 {
				s = fmt.Sprintf(`{"address":"%s","amount":%s,"x":0}`, o[0], o[1])
			}
			if dupKey == "transfer.amount-replaced" && i == 0 {
				// no "amount" member; an unknown one of about the length an amount would take stands in its place
				alt := []string{`"amnout":5`, `"amt":1000`, `"memo":"x"`, `"note":"a"`, `"amount ":1`, `"Amount":77`, `"a":123456`, `"amoun":12`, `"x":0`}
				s = fmt.Sprintf(`{"address":"%s",%s}`, o[0], alt[(int(o[0][10])+int(o[0][20])+int(o[0][30]))%len(alt)])
			}
			os = append(os, s)
		}
		body += `,"transfers":[` + strings.Join(os, ",") + `]`
	}
	if t.meta != "" {
		body += `,"metadata":` + t.meta
	}
	switch dupKey {
	case "tx.input":
		body += `,"input":{` + input + `}`
	case "tx.conversion":
		body += `,"conversion":"pUSD"`
	case "tx.transfers":
		body += `,"transfers":[]`
	case "tx.transfers-null":
		body += `,"transfers":null`
	case "tx.conversion-empty":
		body = `"conversion":"",` + body
	case "tx.extra":
		body += `,"note":"x"`
	case "tx.both":
		if t.conv == "" {
			body += `,"conversion":"pXBT"`
		} else {
			body += fmt.Sprintf(`,"transfers":[{"address":"%s","amount":%s}]`, t.addr, t.amount)
		}
	}
	return "{" + body + "}"
}

var dupKinds = []string{"", "", "", "", "input.missing-type", "input.missing-type-dup", "input.amount", "input.address", "input.type", "input.extra", "transfer.amount", "transfer.extra", "transfer.amount-replaced", "transfer.wrap", "transfer.wrap-int64", "transfer.sum-over-int64", "twin-transfers", "tx.input", "tx.conversion", "tx.transfers", "tx.transfers-null", "tx.conversion-empty", "tx.extra", "tx.both",
	"batch.version", "batch.transactions", "batch.extra", "batch.metadata", "case.version", "case.transactions", "case.input", "case.amount", "unicode.key", "neither", "two-inputs", "unknown-ticker", "unknown-conv", "escaped-ticker", "ws"}

func (g *c20gen) batch() (string, string) {
	from := g.addr()
	n := 1 + g.rng.Intn(3)
	kind := dupKinds[g.rng.Intn(len(dupKinds))]
	var txs []string
	if kind == "twin-transfers" && n < 2 {
		n = 2
	}
	var twin *jtx
	for i := 0; i < n; i++ {
		t := g.tx(from)
		if kind == "twin-transfers" {
			// transfers with the same amounts at the same positions, to different recipients: every transaction of a
			// batch is a value of its own
			if twin == nil {
				t.conv, t.meta = "", ""
				if len(t.outs) == 0 {
					t.outs = [][2]string{{g.addr(), "1000"}, {g.addr(), "2500"}}
					t.amount = "3500"
				} else {
					tot := new(big.Int)
					for _, o := range t.outs {
						b, _ := new(big.Int).SetString(o[1], 10)
						tot.Add(tot, b)
					}
					t.amount = tot.String()
				}
				c := t
				twin = &c
			} else {
				t = *twin
				t.typ = g.ticker()
				t.outs = nil
				for _, o := range twin.outs {
					t.outs = append(t.outs, [2]string{g.addr(), o[1]})
				}
			}
		}
		dk := ""
		if i == 0 && (strings.HasPrefix(kind, "input.") || strings.HasPrefix(kind, "transfer.") || strings.HasPrefix(kind, "tx.")) {
			dk = kind
		}
		switch kind {
		case "neither":
			if i == 0 {
				t.conv, t.outs = "", nil
			}
		case "two-inputs":
			if i == n-1 {
				t.addr = g.addr()
			}
		case "unknown-ticker":
			if i == 0 {
				t.typ = []string{"pNOPE", "peg", "PUSD", "pusd", "", "p", "USD", "pUSD "}[g.rng.Intn(8)]
			}
		case "unknown-conv":
			if i == 0 && t.conv != "" {
				t.conv = []string{"pNOPE", "peg", "Peg", "PEGG", "pXBTC"}[g.rng.Intn(5)]
			}
		case "transfer.amount-replaced":
			// the first output carries no amount (an unknown member instead): the others add up to the input
			if i == 0 && len(t.outs) > 0 {
				tot := new(big.Int)
				for oi := 1; oi < len(t.outs); oi++ {
					b, _ := new(big.Int).SetString(t.outs[oi][1], 10)
					tot.Add(tot, b)
				}
				t.outs[0][1] = "0"
				t.amount = tot.String()
			}
		case "transfer.sum-over-int64":
			// every output fits an int64 and they add up to the input exactly - which does not fit
			if i == 0 && t.conv == "" {
				sets := [][]string{{"4611686018427387904", "4611686018427387904"}, {"9223372036854775807", "1"}, {"9223372036854775807", "9223372036854775807"},
					{"9223372036854775807", "9223372036854775807", "1"}, {"6148914691236517205", "6148914691236517205", "6148914691236517205"}, {"9223372036854775806", "2"}}
				set := sets[g.rng.Intn(len(sets))]
				tot := new(big.Int)
				t.outs = nil
				for _, a := range set {
					b, _ := new(big.Int).SetString(a, 10)
					tot.Add(tot, b)
					t.outs = append(t.outs, [2]string{g.addr(), a})
				}
				t.amount = tot.String()
			}
		case "escaped-ticker":
			// a ticker spelled with JSON escapes: decodes to a listed name, but is not that name as written
			esc := func(s string) string {
				k := g.rng.Intn(len(s))
				return s[:k] + fmt.Sprintf("\\u%04x", s[k]) + s[k+1:]
			}
			if i == 0 {
				if t.conv != "" && g.rng.Intn(3) != 0 {
					t.conv = esc(t.conv)
				} else {
					t.typ = esc(t.typ)
				}
			}
		}
		txs = append(txs, t.render(g.rng.Intn(3), dk))
	}
	ver, trs := `"version":1`, `"transactions":[`+strings.Join(txs, ",")+`]`
	doc := "{" + ver + "," + trs + "}"
	switch kind {
	case "batch.version":
		doc = "{" + ver + "," + trs + `,"version":1}`
	case "batch.transactions":
		doc = "{" + ver + "," + trs + "," + trs + "}"
	case "batch.extra":
		doc = "{" + ver + "," + trs + `,"extra":true}`
	case "batch.metadata":
		doc = "{" + ver + "," + trs + `,"metadata":{"k":"v"}}`
	case "case.version":
		doc = `{"Version":1,` + trs + "}"
	case "case.transactions":
		doc = "{" + ver + `,"Transactions":[` + strings.Join(txs, ",") + `]}`
	case "case.input":
		doc = strings.Replace(doc, `"input"`, `"Input"`, 1)
	case "case.amount":
		doc = strings.Replace(doc, `"amount"`, `"AMOUNT"`, 1)
	case "unicode.key":
		doc = strings.Replace(doc, `"version"`, `"version"`, 1)
	case "ws":
		doc = strings.Replace(strings.Replace(doc, ",", " ,\n", 3), ":", " : ", 2)
	}
	if g.rng.Intn(2) == 0 && kind == "" {
		doc = "{" + trs + "," + ver + "}" // key order is free in JSON
		kind = "reordered"
	}
	if kind == "" {
		kind = "canonical"
	}
	return doc, kind
}

func c20Run(j *orch.Job, r *orch.Result) error {
	var p c20Params
	json.Unmarshal(j.Params, &p)
	g := &c20gen{rng: rand.New(rand.NewSource(p.Seed))}
	for i := 0; i < 6; i++ {
		k := forge.NewKey(fmt.Sprintf("c20-%d-%d", p.Seed, i))
		g.keys = append(g.keys, k)
		g.addrs = append(g.addrs, k.FA().String())
	}
	signer := g.keys[0]
	for i := 0; i < p.Inputs; i++ {
		doc, kind := g.batch()
		// byte-level mutation of some documents
		if g.rng.Intn(10) == 0 && len(doc) > 0 {
			b := []byte(doc)
			switch g.rng.Intn(3) {
			case 0:
				b[g.rng.Intn(len(b))] ^= 1 << uint(g.rng.Intn(7))
			case 1:
				k := g.rng.Intn(len(b))
				b = append(b[:k], b[k+1:]...)
			case 2:
				k := g.rng.Intn(len(b))
				b = append(b[:k], append([]byte{b[k]}, b[k:]...)...)
			}
			doc = string(b)
			kind += "+bytemut"
		}
		r.Count("batch_inputs", 1)
		// the daemon's reader (content only; signatures are C05's subject): sign with the first
		// input address when there is one so that acceptance is decided by the content rules
		content := []byte(doc)
		sv := rules.StrictFAT2(content, knownTicker)
		key := signer
		if sv.OK || true {
			// find the signer for the (first) input address
			for _, k := range g.keys {
				if strings.Contains(doc, k.FA().String()) && strings.Index(doc, k.FA().String()) == firstAddr(doc, g.addrs) {
					key = k
				}
			}
		}
		ent := forge.SignContent(config.TransactionChain, content, 1600000500, key)
		fe := ent.Parse()
		fe.Timestamp = timeUnix(1600000500)
		tb, err := fat2.NewTransactionBatch(fe, -1)
		accepted := err == nil
		if accepted {
			r.Count("accepted_by_daemon", 1)
			r.Seen("accepted_kinds", kind)
		}
		if sv.OK {
			r.Count("accepted_by_reference", 1)
		} else {
			r.Seen("reference_reject_reasons", clipS(strings.SplitN(sv.Reason, " ", 3)[0]+" "+firstWord(sv.Reason, 1), 40))
		}
		if accepted && !sv.OK {
			if sv.Judged {
				cls := strings.Join(strings.Fields(sv.Reason)[:min(2, len(strings.Fields(sv.Reason)))], "-")
				r.Violate("C20", "non-canonical-batch-accepted reason="+cls,
					fmt.Sprintf("fat2.NewTransactionBatch accepted content that is not canonical (%s):\n%s", sv.Reason, clipS(doc, 900)),
					map[string]interface{}{"content": doc, "reason": sv.Reason, "generator_kind": kind})
			} else {
				r.Count("accepted_but_unjudged_difference", 1)
				r.Seen("unjudged_differences", clipS(sv.Reason, 50))
			}
		}
		if accepted {
			// (b) re-encode and decode again
			re, err := json.Marshal(tb)
			if err != nil {
				r.Violate("C20", "accepted-batch-cannot-be-re-encoded", fmt.Sprintf("re-encoding an accepted batch failed: %v\n%s", err, clipS(doc, 600)), map[string]interface{}{"content": doc})
				continue
			}
			ent2 := forge.SignContent(config.TransactionChain, re, 1600000500, key)
			fe2 := ent2.Parse()
			fe2.Timestamp = timeUnix(1600000500)
			tb2, err := fat2.NewTransactionBatch(fe2, -1)
			r.Count("round_trips", 1)
			if err != nil {
				r.Violate("C20", "re-encoded-batch-rejected", fmt.Sprintf("the re-encoding of an accepted batch is rejected: %v\noriginal: %s\nre-encoded: %s", err, clipS(doc, 500), clipS(string(re), 500)), map[string]interface{}{"content": doc})
				continue
			}
			if !sameTxs(tb.Transactions, tb2.Transactions) {
				r.Violate("C20", "round-trip-changes-transactions", fmt.Sprintf("decode(encode(batch)) differs\noriginal: %s\nre-encoded: %s", clipS(doc, 500), clipS(string(re), 500)), map[string]interface{}{"content": doc})
			}
			// the reference must agree on what the accepted batch says
			if sv.OK && !sameAsStrict(tb.Transactions, sv.Txs) {
				r.Violate("C20", "decoded-value-differs-from-reference", fmt.Sprintf("daemon and strict reader decode different transactions from\n%s", clipS(doc, 700)), map[string]interface{}{"content": doc})
			}
		}
		if i < 3 {
			r.Sample(map[string]interface{}{"kind": kind, "content": clipS(doc, 300), "daemon_accepts": accepted, "reference": sv.Reason})
		}
	}
	// (c) decimal amounts
	for i := 0; i < p.Inputs; i++ {
		s := g.decimal()
		r.Count("decimal_inputs", 1)
		got, err := cmd.FactoidToFactoshi(s)
		want, ok := rules.ExactFactoshi(s)
		if err != nil {
			r.Count("decimal_rejected", 1)
			continue
		}
		r.Count("decimal_accepted", 1)
		if s == "" {
			continue // the empty string is not a decimal; its treatment is not judged
		}
		if !ok {
			r.Violate("C20", "malformed-amount-accepted", fmt.Sprintf("FactoidToFactoshi(%q) = %d, nil although the string is not a decimal with at most 8 fractional digits", s, got), map[string]interface{}{"input": s})
			continue
		}
		if !want.IsUint64() || want.Uint64() != got {
			cls := "wrong-value"
			if !want.IsUint64() {
				cls = "overflow-wraps"
			}
			r.Violate("C20", "amount-silently-altered class="+cls, fmt.Sprintf("FactoidToFactoshi(%q) = %d, nil but the exact value is %s base units", s, got, want), map[string]interface{}{"input": s, "got": got, "exact": want.String()})
		} else {
			r.Count("decimal_exact", 1)
			if want.BitLen() > 60 {
				r.Count("decimal_exact_large", 1)
			}
		}
	}
	return nil
}

func firstWord(s string, n int) string {
	f := strings.Fields(s)
	if len(f) > n {
		return f[n]
	}
	return ""
}

func firstAddr(doc string, addrs []string) int {
	best := -1
	for _, a := range addrs {
		if i := strings.Index(doc, a); i >= 0 && (best < 0 || i < best) {
			best = i
		}
	}
	return best
}

func sameTxs(a, b []fat2.Transaction) bool {
	if len(a) != len(b) {
		return false
	}
	for i := range a {
		if a[i].Input != b[i].Input || a[i].Conversion != b[i].Conversion || !reflect.DeepEqual(a[i].Transfers, b[i].Transfers) {
			return false
		}
	}
	return true
}

func sameAsStrict(a []fat2.Transaction, s []rules.StrictTx) bool {
	if len(a) != len(s) {
		return false
	}
	for i := range a {
		if a[i].Input.Address.String() != s[i].From || a[i].Input.Amount != s[i].Amount || a[i].Input.Type.String() != s[i].Type {
			return false
		}
		if s[i].Conv != "" {
			if a[i].Conversion.String() != s[i].Conv {
				return false
			}
		} else {
			if len(a[i].Transfers) != len(s[i].Outs) {
				return false
			}
			for k := range s[i].Outs {
				if a[i].Transfers[k].Address.String() != s[i].Outs[k].Addr || a[i].Transfers[k].Amount != s[i].Outs[k].Amount {
					return false
				}
			}
		}
	}
	return true
}

var decimalEdges = []string{"0", "1", "0.00000001", "0.1", "1.00000000", "184467440737.09551615", "184467440737.09551616", "184467440737.1", "184467440738", "184467440737",
	"92233720368.54775807", "92233720368.54775808", "9223372036854775807", "9223372036854775808", "18446744073709551615", "18446744073709551616", "200000000000",
	"99999999999999999999", "0.123456789", "1.", ".5", ".", "", "00012.5", "1.5.5", "-1", "+1", "1e3", " 1", "1 ", "1,5", "0x10", "１", "12345678901234567890.12345678"}

func (g *c20gen) decimal() string {
	if g.rng.Intn(4) == 0 {
		return decimalEdges[g.rng.Intn(len(decimalEdges))]
	}
	digits := func(n int) string {
		b := make([]byte, n)
		for i := range b {
			b[i] = byte('0' + g.rng.Intn(10))
		}
		return string(b)
	}
	w := digits(g.rng.Intn(31))
	if g.rng.Intn(3) == 0 && len(w) > 0 {
		// values around the uint64/1e8 boundary
		base, _ := new(big.Int).SetString("184467440737", 10)
		base.Add(base, big.NewInt(int64(g.rng.Intn(5)-2)))
		w = base.String()
	}
	if g.rng.Intn(3) == 0 {
		return w
	}
	f := digits(g.rng.Intn(12))
	if g.rng.Intn(2) == 0 && len(f) > 8 {
		f = f[:8]
	}
	return w + "." + f
}

var _ = factom.Bytes32{}

func checkC20(c *Ctx) *orch.Outcome {
	o := c.NewOutcome("exploration")
	o.Rule = "one evaluation = one byte string offered to fat2.NewTransactionBatch (grammar-generated batches with structural mutations: duplicate / unknown / case-variant / escaped keys at every level, both/neither of transfers and conversion, several input addresses, unknown tickers, hostile amount literals, byte mutations; correctly signed so that content rules decide) compared one-way with a strict reference reader, plus re-encode/decode round trip of every accepted batch; and one decimal string offered to cmd.FactoidToFactoshi compared with exact big-integer arithmetic. " +
		"Distinct non-trivial = distinct generator kinds accepted by the daemon + distinct reference reject reasons observed + decimals converted exactly."
	o.Assumptions = []string{
		"judged one way only: accepting a non-canonical batch is a violation, rejecting a canonical one is not",
		"keys differing only in letter case and batch-level metadata are recorded, not judged; the empty decimal string is not judged",
	}
	jobs := 8
	per := 12000
	if c.Thorough() {
		jobs, per = 32, 300000
	}
	var js []orch.Job
	for i := 0; i < jobs; i++ {
		seed := c.Seed*1000 + int64(i)
		pj, _ := json.Marshal(c20Params{Seed: seed, Inputs: per})
		js = append(js, orch.Job{Kind: "c20.run", Name: fmt.Sprintf("c20-%d", seed), Seed: seed, Params: pj, Timeout: 3000})
	}
	rs := c.R.Run(js)
	o.Merge(rs)
	for i, r := range rs {
		if r.Crashed {
			o.Violations = append(o.Violations, orch.Violation{Property: "C20", Signature: "parser-crashed", Detail: "the parser crashed on generated input: " + clipS(r.Stderr, 1500), Case: js[i].Name})
		}
	}
	o.Evaluations = orch.SumCounter(rs, "batch_inputs") + orch.SumCounter(rs, "decimal_inputs")
	o.Nontrivial = int64(len(orch.UnionDistinct(rs, "accepted_kinds")) + len(orch.UnionDistinct(rs, "reference_reject_reasons")))
	if orch.SumCounter(rs, "decimal_exact") > 0 {
		o.Nontrivial++
	}
	for _, k := range []string{"accepted_by_daemon", "accepted_by_reference", "round_trips", "accepted_but_unjudged_difference", "decimal_accepted", "decimal_rejected", "decimal_exact", "decimal_exact_large"} {
		o.Extra[k] = orch.SumCounter(rs, k)
	}
	o.Extra["accepted_generator_kinds"] = orch.UnionDistinct(rs, "accepted_kinds")
	o.Extra["reference_reject_reasons"] = orch.UnionDistinct(rs, "reference_reject_reasons")
	o.Extra["unjudged_differences"] = orch.UnionDistinct(rs, "unjudged_differences")
	o.MinNontrivial = 8
	return o
}
