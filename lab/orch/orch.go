// Package orch runs lab jobs in child processes, aggregates what their monitors
// observed, applies the known-findings file, and writes evidence.
package orch

import (
	"bytes"
	"encoding/json"
	"fmt"
	"os"
	"os/exec"
	"path/filepath"
	"regexp"
	"runtime"
	"sort"
	"strings"
	"sync"
	"time"
)

// Violation is one refuting observation.
type Violation struct {
	Property  string      `json:"property"`
	Signature string      `json:"signature"` // stable identity used by known_findings.json
	Detail    string      `json:"detail"`
	Case      interface{} `json:"case,omitempty"`
}

// Job is one child execution.
type Job struct {
	Kind    string          `json:"kind"`
	Name    string          `json:"name"`
	Seed    int64           `json:"seed"`
	Params  json.RawMessage `json:"params"`
	Dir     string          `json:"dir"` // scratch directory of this job (created by the parent)
	Race    bool            `json:"race"`
	ASan    bool            `json:"asan"` // run with the AddressSanitizer build (C code of SQLite instrumented)
	Timeout int             `json:"timeout_s"`
	Env     []string        `json:"env,omitempty"`
	// Wrap is a command prefix the child is started under (e.g. strace with fault injection); "{dir}" in
	// its elements is replaced by the job's scratch directory.
	Wrap []string `json:"wrap,omitempty"`
}

// Result is what a child reports.
type Result struct {
	Job          string           `json:"job"`
	Violations   []Violation      `json:"violations"`
	Inconclusive []string         `json:"inconclusive"`
	Counters     map[string]int64 `json:"counters"`
	Distinct     map[string][]string `json:"distinct,omitempty"` // named sets of distinct things seen
	Samples      []interface{}    `json:"samples"`
	Info         map[string]interface{} `json:"info,omitempty"`
	// filled by the parent
	Crashed  bool   `json:"crashed"`
	ExitCode int    `json:"exit_code"`
	Signal   string `json:"signal,omitempty"`
	Stderr   string `json:"stderr_tail,omitempty"`
	TimedOut bool   `json:"timed_out"`
	WallS    float64 `json:"wall_s"`
	RaceReports int `json:"race_reports"`
	ASanReports int `json:"asan_reports"`
	RaceLog  string `json:"race_log,omitempty"`
}

// NewResult makes an empty result for a job.
func NewResult(j *Job) *Result {
	return &Result{Job: j.Name, Counters: map[string]int64{}, Distinct: map[string][]string{}, Info: map[string]interface{}{}}
}

func (r *Result) Count(k string, n int64) { r.Counters[k] += n }

// Seen records a distinct item in a named set.
func (r *Result) Seen(set, item string) {
	for _, x := range r.Distinct[set] {
		if x == item {
			return
		}
	}
	r.Distinct[set] = append(r.Distinct[set], item)
}

func (r *Result) Violate(prop, sig, detail string, c interface{}) {
	r.Violations = append(r.Violations, Violation{Property: prop, Signature: sig, Detail: detail, Case: c})
}

func (r *Result) Sample(s interface{}) {
	if len(r.Samples) < 6 {
		r.Samples = append(r.Samples, s)
	}
}

// Handler runs a job inside the child process.
type Handler func(j *Job, r *Result) error

var handlers = map[string]Handler{}

// Register adds a job kind.
func Register(kind string, h Handler) { handlers[kind] = h }

// ChildMain is the entry of `lab child <jobfile>`.
func ChildMain(jobFile string) int {
	data, err := os.ReadFile(jobFile)
	if err != nil {
		fmt.Fprintln(os.Stderr, "child: read job:", err)
		return 2
	}
	var j Job
	if err := json.Unmarshal(data, &j); err != nil {
		fmt.Fprintln(os.Stderr, "child: parse job:", err)
		return 2
	}
	h, ok := handlers[j.Kind]
	if !ok {
		fmt.Fprintln(os.Stderr, "child: unknown job kind", j.Kind)
		return 2
	}
	r := NewResult(&j)
	if err := h(&j, r); err != nil {
		r.Inconclusive = append(r.Inconclusive, "handler error: "+err.Error())
	}
	out, _ := json.Marshal(r)
	if err := os.WriteFile(jobFile+".result", out, 0644); err != nil {
		fmt.Fprintln(os.Stderr, "child: write result:", err)
		return 2
	}
	return 0
}

// Runner executes jobs.
type Runner struct {
	Exe      string // plain binary
	RaceExe  string // -race binary (may be empty)
	Scratch  string // scratch root (outside /repo and /verif)
	Parallel int
	Verbose  bool
}

// NewRunner prepares a scratch root.
func NewRunner() (*Runner, error) {
	exe, err := os.Executable()
	if err != nil {
		return nil, err
	}
	root := os.Getenv("VERIF_SCRATCH")
	if root == "" {
		root = os.TempDir()
	}
	dir, err := os.MkdirTemp(root, "verif-lab-")
	if err != nil {
		return nil, err
	}
	p := runtime.NumCPU()
	if p > 16 {
		p = 16
	}
	r := &Runner{Exe: exe, Scratch: dir, Parallel: p}
	if re := os.Getenv("VERIF_RACE_EXE"); re != "" {
		r.RaceExe = re
	} else if _, err := os.Stat(exe + "-race"); err == nil {
		r.RaceExe = exe + "-race"
	}
	return r, nil
}

// Cleanup removes the scratch root.
func (r *Runner) Cleanup() {
	if os.Getenv("VERIF_KEEP") != "" {
		fmt.Println("scratch kept at", r.Scratch)
		return
	}
	os.RemoveAll(r.Scratch)
}

// JobDir makes a scratch directory for a job.
func (r *Runner) JobDir(name string) string {
	d := filepath.Join(r.Scratch, sanitize(name))
	os.MkdirAll(d, 0755)
	return d
}

func sanitize(s string) string {
	return regexp.MustCompile(`[^A-Za-z0-9_.-]`).ReplaceAllString(s, "_")
}

// Run executes all jobs (bounded parallelism) and returns results in job order.
func (r *Runner) Run(jobs []Job) []*Result {
	out := make([]*Result, len(jobs))
	sem := make(chan struct{}, r.Parallel)
	var wg sync.WaitGroup
	for i := range jobs {
		wg.Add(1)
		sem <- struct{}{}
		go func(i int) {
			defer wg.Done()
			defer func() { <-sem }()
			out[i] = r.RunOne(&jobs[i])
		}(i)
	}
	wg.Wait()
	return out
}

// RunOne executes one job in a child process.
func (r *Runner) RunOne(j *Job) *Result {
	if j.Dir == "" {
		j.Dir = r.JobDir(j.Name)
	}
	if j.Timeout == 0 {
		j.Timeout = 600
	}
	jobFile := filepath.Join(j.Dir, "job.json")
	data, _ := json.Marshal(j)
	os.WriteFile(jobFile, data, 0644)
	exe := r.Exe
	env := append(os.Environ(), j.Env...)
	raceLog := filepath.Join(j.Dir, "race.log")
	if j.Race {
		if r.RaceExe == "" {
			res := NewResult(j)
			res.Inconclusive = append(res.Inconclusive, "race binary not available")
			return res
		}
		exe = r.RaceExe
		env = append(env, "GORACE=halt_on_error=0 exitcode=0 log_path="+raceLog+" history_size=2")
	}
	if j.ASan {
		if _, err := os.Stat(r.Exe + "-asan"); err != nil {
			res := NewResult(j)
			res.Inconclusive = append(res.Inconclusive, "asan binary not available")
			return res
		}
		exe = r.Exe + "-asan"
		env = append(env, "ASAN_OPTIONS=detect_leaks=0:halt_on_error=1:abort_on_error=0")
	}
	stderrPath := filepath.Join(j.Dir, "stderr.txt")
	stderrF, _ := os.Create(stderrPath)
	// timeout(1) delivers SIGQUIT first so that a goroutine dump lands in stderr, then SIGKILL
	args := []string{"-s", "QUIT", "-k", "10", fmt.Sprint(j.Timeout)}
	for _, w := range j.Wrap {
		args = append(args, strings.ReplaceAll(w, "{dir}", j.Dir))
	}
	args = append(args, exe, "child", jobFile)
	cmd := exec.Command("timeout", args...)
	cmd.Env = env
	cmd.Stdout = stderrF
	cmd.Stderr = stderrF
	t0 := time.Now()
	err := cmd.Run()
	wall := time.Since(t0).Seconds()
	stderrF.Close()

	res := NewResult(j)
	if data, rerr := os.ReadFile(jobFile + ".result"); rerr == nil {
		var rr Result
		if json.Unmarshal(data, &rr) == nil {
			res = &rr
			if res.Counters == nil {
				res.Counters = map[string]int64{}
			}
			if res.Distinct == nil {
				res.Distinct = map[string][]string{}
			}
		}
	} else {
		res.Crashed = true
	}
	res.WallS = wall
	if err != nil {
		if ee, ok := err.(*exec.ExitError); ok {
			res.ExitCode = ee.ExitCode()
			if res.ExitCode == 124 || (res.ExitCode == 137 && wall >= float64(j.Timeout)-1) {
				res.TimedOut = true
			}
		} else {
			res.ExitCode = -1
		}
	}
	if res.Crashed || res.ExitCode != 0 {
		res.Stderr = tail(stderrPath, 6000)
		if res.ExitCode != 0 && !res.TimedOut {
			res.Crashed = true
		}
	}
	if j.ASan {
		if b, err := os.ReadFile(stderrPath); err == nil {
			res.ASanReports = bytes.Count(b, []byte("ERROR: AddressSanitizer"))
			if res.ASanReports > 0 {
				res.Stderr = tail(stderrPath, 8000)
			}
		}
	}
	if j.Race {
		n, txt := CountRaceReports(j.Dir)
		res.RaceReports = n
		res.RaceLog = txt
	}
	return res
}

func tail(path string, n int) string {
	b, err := os.ReadFile(path)
	if err != nil {
		return ""
	}
	if len(b) > n {
		// keep head (panic message) and tail
		return string(b[:n/2]) + "\n…\n" + string(b[len(b)-n/2:])
	}
	return string(b)
}

// CountRaceReports counts "WARNING: DATA RACE" blocks in race.log.* files of dir.
func CountRaceReports(dir string) (int, string) {
	files, _ := filepath.Glob(filepath.Join(dir, "race.log*"))
	n := 0
	var buf bytes.Buffer
	for _, f := range files {
		b, err := os.ReadFile(f)
		if err != nil {
			continue
		}
		n += bytes.Count(b, []byte("WARNING: DATA RACE"))
		if buf.Len() < 200000 {
			buf.Write(b)
		}
	}
	return n, buf.String()
}

// ---------------------------------------------------------------------------
// Known findings

// Finding is one entry of known_findings.json.
type Finding struct {
	Property    string `json:"property"`
	Status      string `json:"status"` // "known" or "fixed"
	Match       string `json:"match"`  // regular expression over Violation.Signature
	Description string `json:"description"`
	Commit      string `json:"commit,omitempty"`
}

// LoadFindings reads /verif/known_findings.json (missing file = none).
func LoadFindings(path string) ([]Finding, error) {
	b, err := os.ReadFile(path)
	if os.IsNotExist(err) {
		return nil, nil
	}
	if err != nil {
		return nil, err
	}
	var f struct {
		Findings []Finding `json:"findings"`
	}
	if err := json.Unmarshal(b, &f); err != nil {
		return nil, err
	}
	return f.Findings, nil
}

// MatchFinding returns the known (not fixed) finding that lists this violation.
func MatchFinding(fs []Finding, v Violation) *Finding {
	for i := range fs {
		f := &fs[i]
		if f.Status != "known" || f.Property != v.Property {
			continue
		}
		if re, err := regexp.Compile(f.Match); err == nil && re.MatchString(v.Signature) {
			return f
		}
	}
	return nil
}

// ---------------------------------------------------------------------------
// Evidence

// Evidence mirrors EVIDENCE.schema.json.
type Evidence struct {
	PropertyID  string                 `json:"property_id"`
	Tier        string                 `json:"tier"`
	Seed        int64                  `json:"seed"`
	Level       string                 `json:"level"`
	Coverage    map[string]interface{} `json:"coverage"`
	Assumptions []string               `json:"assumptions"`
	WallS       float64                `json:"wall_s"`
	Violations  int                    `json:"violations"`
	KnownFindings []string             `json:"known_findings_reported,omitempty"`
	Inconclusive []string              `json:"inconclusive,omitempty"`
	Verdict     string                 `json:"verdict"`
}

// Outcome is the aggregate of a check.
type Outcome struct {
	Property     string
	Tier         string
	Seed         int64
	Level        string
	Evaluations  int64
	Nontrivial   int64
	Rule         string
	Samples      []interface{}
	Exhaustive   bool
	Extra        map[string]interface{}
	Assumptions  []string
	Violations   []Violation
	Inconclusive []string
	MinNontrivial int64
	Start        time.Time
}

// Merge folds child results into the outcome (violations, inconclusive, samples).
func (o *Outcome) Merge(rs []*Result) {
	for _, r := range rs {
		if r == nil {
			continue
		}
		o.Violations = append(o.Violations, r.Violations...)
		for _, s := range r.Inconclusive {
			o.Inconclusive = append(o.Inconclusive, r.Job+": "+s)
		}
		for _, s := range r.Samples {
			if len(o.Samples) < 8 {
				o.Samples = append(o.Samples, s)
			}
		}
		if r.TimedOut {
			o.Inconclusive = append(o.Inconclusive, r.Job+": watchdog timeout")
		}
	}
}

// SumCounter adds up a counter over results.
func SumCounter(rs []*Result, k string) int64 {
	var n int64
	for _, r := range rs {
		if r != nil {
			n += r.Counters[k]
		}
	}
	return n
}

// UnionDistinct unions a named set over results.
func UnionDistinct(rs []*Result, set string) []string {
	m := map[string]bool{}
	for _, r := range rs {
		if r == nil {
			continue
		}
		for _, x := range r.Distinct[set] {
			m[x] = true
		}
	}
	out := make([]string, 0, len(m))
	for x := range m {
		out = append(out, x)
	}
	sort.Strings(out)
	return out
}

// Finish applies known findings, writes evidence and replay files, prints the verdict lines and returns the exit code.
func (o *Outcome) Finish(verifDir string) int {
	findings, ferr := LoadFindings(filepath.Join(verifDir, "known_findings.json"))
	if ferr != nil {
		fmt.Println("cannot read known_findings.json:", ferr)
	}
	var fresh []Violation
	known := map[string]int{}
	knownDesc := map[string]string{}
	for _, v := range o.Violations {
		if f := MatchFinding(findings, v); f != nil {
			key := f.Match
			known[key]++
			knownDesc[key] = f.Description
			continue
		}
		fresh = append(fresh, v)
	}
	var knownLines []string
	keys := make([]string, 0, len(known))
	for k := range known {
		keys = append(keys, k)
	}
	sort.Strings(keys)
	for _, k := range keys {
		line := fmt.Sprintf("KNOWN-FINDING: property=%s %s (observed %d time(s) in this run; signature /%s/)", o.Property, knownDesc[k], known[k], k)
		fmt.Println(line)
		knownLines = append(knownLines, line)
	}

	verdict := "held"
	code := 0
	if len(fresh) > 0 {
		verdict = "violated"
		code = 1
	} else if len(o.Inconclusive) > 0 || o.Nontrivial < o.MinNontrivial || o.Nontrivial < 2 {
		verdict = "inconclusive"
		code = 3
		if o.Nontrivial < o.MinNontrivial {
			o.Inconclusive = append(o.Inconclusive, fmt.Sprintf("only %d non-trivial observations, need %d", o.Nontrivial, o.MinNontrivial))
		}
	}

	// replay files for fresh violations (deduplicated by signature)
	os.MkdirAll(filepath.Join(verifDir, "replays"), 0755)
	if old, _ := filepath.Glob(filepath.Join(verifDir, "replays", fmt.Sprintf("%s-%s-seed%d-*.json", o.Property, o.Tier, o.Seed))); len(old) > 0 {
		for _, f := range old {
			os.Remove(f)
		}
	}
	seenSig := map[string]bool{}
	for i, v := range fresh {
		if seenSig[v.Signature] {
			continue
		}
		seenSig[v.Signature] = true
		p := filepath.Join(verifDir, "replays", fmt.Sprintf("%s-%s-seed%d-%d.json", o.Property, o.Tier, o.Seed, i))
		b, _ := json.MarshalIndent(map[string]interface{}{"property": o.Property, "tier": o.Tier, "seed": o.Seed, "violation": v}, "", " ")
		os.WriteFile(p, b, 0644)
		fmt.Printf("VIOLATION property=%s replay=%s\n", o.Property, p)
		fmt.Printf("  signature: %s\n  detail: %s\n", v.Signature, clip(v.Detail, 1500))
	}

	cov := map[string]interface{}{
		"evaluations":         o.Evaluations,
		"distinct_nontrivial": o.Nontrivial,
		"rule":                o.Rule,
		"samples":             o.Samples,
	}
	if o.Exhaustive {
		cov["exhaustive"] = true
	}
	for k, v := range o.Extra {
		cov[k] = v
	}
	if len(o.Samples) == 0 {
		cov["samples"] = []interface{}{"(no sample recorded)"}
	}
	ev := Evidence{PropertyID: o.Property, Tier: o.Tier, Seed: o.Seed, Level: o.Level, Coverage: cov,
		Assumptions: o.Assumptions, WallS: time.Since(o.Start).Seconds(), Violations: len(fresh),
		KnownFindings: knownLines, Inconclusive: o.Inconclusive, Verdict: verdict}
	if ev.Assumptions == nil {
		ev.Assumptions = []string{}
	}
	os.MkdirAll(filepath.Join(verifDir, "evidence"), 0755)
	b, _ := json.MarshalIndent(ev, "", " ")
	os.WriteFile(filepath.Join(verifDir, "evidence", o.Property+".json"), b, 0644)

	fmt.Printf("%s %s tier=%s seed=%d evaluations=%d nontrivial=%d violations=%d known=%d wall=%.1fs\n",
		strings.ToUpper(verdict), o.Property, o.Tier, o.Seed, o.Evaluations, o.Nontrivial, len(fresh), len(o.Violations)-len(fresh), time.Since(o.Start).Seconds())
	for _, s := range o.Inconclusive {
		fmt.Println("  inconclusive:", clip(s, 400))
	}
	return code
}

func clip(s string, n int) string {
	if len(s) > n {
		return s[:n] + "…"
	}
	return s
}
