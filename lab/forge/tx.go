package forge

import (
	"crypto/sha512"
	"encoding/json"
	"fmt"
	"strconv"

	"github.com/Factom-Asset-Tokens/factom"
	"github.com/pegnet/pegnetd/config"
	"github.com/pegnet/pegnetd/fat/fat2"
)

// Tx is one FAT-2 transaction (transfer or conversion) in lab terms.
type Tx struct {
	From   factom.FAAddress
	Asset  fat2.PTicker
	Amount uint64
	// transfer
	To []Out
	// conversion (when To is empty)
	Conv fat2.PTicker
}

type Out struct {
	Addr   factom.FAAddress
	Amount uint64
}

// Transfer builds a single-output transfer.
func Transfer(from factom.FAAddress, asset fat2.PTicker, amount uint64, to factom.FAAddress) Tx {
	return Tx{From: from, Asset: asset, Amount: amount, To: []Out{{to, amount}}}
}

// Conversion builds a conversion.
func Conversion(from factom.FAAddress, asset fat2.PTicker, amount uint64, to fat2.PTicker) Tx {
	return Tx{From: from, Asset: asset, Amount: amount, Conv: to}
}

func (t Tx) IsConversion() bool { return len(t.To) == 0 }

// BatchContent marshals the batch JSON exactly as the daemon's own encoder does.
func BatchContent(txs []Tx) []byte {
	var b fat2.TransactionBatch
	b.Version = 1
	for _, t := range txs {
		ft := fat2.Transaction{Input: fat2.TypedAddressAmountTuple{Address: t.From, Amount: t.Amount, Type: t.Asset}}
		if t.IsConversion() {
			ft.Conversion = t.Conv
		} else {
			for _, o := range t.To {
				ft.Transfers = append(ft.Transfers, fat2.AddressAmountTuple{Address: o.Addr, Amount: o.Amount})
			}
		}
		b.Transactions = append(b.Transactions, ft)
	}
	// json.Marshal(b) goes through MarshalJSON, which refuses invalid data; the
	// lab sometimes wants invalid data on chain, so marshal the alias type.
	type plain struct {
		Version      uint               `json:"version"`
		Transactions []fat2.Transaction `json:"transactions"`
	}
	content, err := json.Marshal(plain{b.Version, b.Transactions})
	if err != nil {
		panic(err)
	}
	return content
}

// SignContent builds the signed entry for arbitrary content: ExtIDs = salt, then
// (RCD, signature) for each signer, message = idx || salt || chain || content.
func SignContent(chain factom.Bytes32, content []byte, saltUnix int64, signers ...Key) Entry {
	salt := []byte(strconv.FormatInt(saltUnix, 10))
	ext := [][]byte{salt}
	for i, k := range signers {
		msg := []byte(strconv.Itoa(i))
		msg = append(msg, salt...)
		msg = append(msg, chain[:]...)
		msg = append(msg, content...)
		h := sha512.Sum512(msg)
		s := k.Signer()
		ext = append(ext, s.RCD(), s.Sign(h[:]))
	}
	return NewEntry(chain, ext, content)
}

// SignedBatch builds a signed FAT-2 batch entry on the transaction chain.
func SignedBatch(txs []Tx, saltUnix int64, signer Key) Entry {
	e := SignContent(config.TransactionChain, BatchContent(txs), saltUnix, signer)
	e.Note = DescribeBatch(txs)
	return e
}

func DescribeBatch(txs []Tx) string {
	s := ""
	for i, t := range txs {
		if i > 0 {
			s += "; "
		}
		if t.IsConversion() {
			s += fmt.Sprintf("conv %d %s->%s from %s", t.Amount, t.Asset, t.Conv, t.From)
		} else {
			s += fmt.Sprintf("xfer %d %s from %s to", t.Amount, t.Asset, t.From)
			for _, o := range t.To {
				s += fmt.Sprintf(" %s:%d", o.Addr, o.Amount)
			}
		}
	}
	return s
}
