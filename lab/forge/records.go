package forge

import (
	"crypto/ed25519"
	"crypto/sha256"
	"encoding/hex"
	"fmt"
	"os"

	"github.com/Factom-Asset-Tokens/factom"
	"github.com/pegnet/pegnet/modules/grader"
	"github.com/pegnet/pegnet/modules/opr"
	"github.com/pegnet/pegnetd/config"
)

// Key is a deterministic key pair (ed25519 "Fs" key, or secp256k1 "Eth" key for RCD-e).
type Key struct {
	Fs  factom.FsAddress
	Eth *factom.EthSecret
}

// NewKey derives an ed25519 key from a label.
func NewKey(label string) Key {
	s := sha256.Sum256([]byte("verif-key:" + label))
	var k Key
	copy(k.Fs[:], s[:])
	return k
}

// NewEthKey derives a secp256k1 key (RCD type 0x0e).
func NewEthKey(label string) Key {
	s := sha256.Sum256([]byte("verif-ethkey:" + label))
	var e factom.EthSecret
	copy(e[:], s[:])
	return Key{Eth: &e}
}

func (k Key) IsEth() bool { return k.Eth != nil }

// FA is the public Factoid address (sha256d of the RCD).
func (k Key) FA() factom.FAAddress {
	if k.Eth != nil {
		return k.Eth.FAAddress()
	}
	return k.Fs.FAAddress()
}

func (k Key) Signer() factom.RCDSigner {
	if k.Eth != nil {
		return *k.Eth
	}
	return k.Fs
}

// AssetNames returns the asset list of an OPR/SPR version (OPR versions 1..5).
func AssetNames(version uint8) []string {
	switch version {
	case 1:
		return opr.V1Assets
	case 2, 3:
		return opr.V2Assets
	case 4:
		return opr.V4Assets
	default:
		return opr.V5Assets
	}
}

// OPRVersion is the record version the daemon expects at a height.
func (e Eras) OPRVersion(h uint32) uint8 {
	v := uint8(1)
	if h >= e.GradingV2 {
		v = 2
	}
	if h >= e.PEGFreeFloat {
		v = 3
	}
	if h >= e.V4 {
		v = 4
	}
	if h >= e.V20 {
		v = 5
	}
	return v
}

// SPRVersion is the staking record version the daemon expects at a height.
func (e Eras) SPRVersion(h uint32) uint8 {
	v := uint8(5)
	if h >= e.SprSig {
		v = 6
	}
	if h >= e.V202 {
		v = 7
	}
	return v
}

// WinnerCount is the number of paid records for an OPR version.
func WinnerCount(version uint8) int {
	if version == 1 {
		return 10
	}
	return 25
}

// OPRParams describes one oracle price record.
type OPRParams struct {
	Version     uint8 // content/extid version
	Height      uint32
	PrevWinners []string // short hashes, "" entries allowed when there are none
	Address     string
	ID          string
	Assets      []uint64 // one per AssetNames(Version), units of 1e-8 USD
	Nonce       []byte
	// Overrides for hostile records
	ExtVersion  *uint8  // version byte in ExtIDs[2] if different from Version
	Difficulty  *uint64 // self reported difficulty if it should be a lie
	RawContent  []byte  // replaces the marshalled content
	ExtraExtIDs [][]byte
}

func init() {
	// A 256-byte LXR table makes proof-of-work free for the lab; the daemon's
	// grader reads the same environment variable.
	if os.Getenv("LXRBITSIZE") == "" {
		os.Setenv("LXRBITSIZE", "8")
	}
	grader.InitLX()
}

// MakeOPR builds a mined OPR entry. The self-reported difficulty is the true LXR
// hash of (sha256(content) || nonce) unless overridden.
func MakeOPR(p OPRParams) Entry {
	var content []byte
	var err error
	if p.RawContent != nil {
		content = p.RawContent
	} else if p.Version == 1 {
		c := new(opr.V1Content)
		c.CoinbaseAddress = p.Address
		c.Dbht = int32(p.Height)
		c.WinPreviousOPR = append([]string{}, p.PrevWinners...)
		c.FactomDigitalID = p.ID
		c.Assets = make(opr.V1AssetList)
		for i, name := range opr.V1Assets {
			if i < len(p.Assets) {
				c.Assets[name] = float64(p.Assets[i]) / 1e8
			}
		}
		content, err = c.Marshal()
	} else {
		c := new(opr.V2Content)
		c.Address = p.Address
		c.ID = p.ID
		c.Height = int32(p.Height)
		c.Assets = append([]uint64{}, p.Assets...)
		c.Winners = make([][]byte, len(p.PrevWinners))
		for i, w := range p.PrevWinners {
			c.Winners[i], _ = hex.DecodeString(w)
			if c.Winners[i] == nil {
				c.Winners[i] = []byte{}
			}
		}
		content, err = c.Marshal()
	}
	if err != nil {
		panic("forge: opr marshal: " + err.Error())
	}
	oh := sha256.Sum256(content)
	hs := grader.LX.Hash(append(append([]byte{}, oh[:]...), p.Nonce...))
	diff := append([]byte{}, hs[:8]...)
	if p.Difficulty != nil {
		for i := 0; i < 8; i++ {
			diff[i] = byte(*p.Difficulty >> (8 * uint(7-i)))
		}
	}
	ver := p.Version
	if p.ExtVersion != nil {
		ver = *p.ExtVersion
	}
	ext := [][]byte{p.Nonce, diff, {ver}}
	ext = append(ext, p.ExtraExtIDs...)
	e := NewEntry(config.OPRChain, ext, content)
	e.Note = fmt.Sprintf("opr v%d id=%s addr=%s", p.Version, p.ID, p.Address)
	return e
}

// SPRParams describes one staking price record.
type SPRParams struct {
	Version uint8 // 5,6,7
	Height  uint32
	Staker  factom.FAAddress // ExtIDs[1]: raw 32 byte address claimed as staker identity
	Signer  Key              // key that signs (versions 6,7); normally the staker's key
	Payout  string           // coinbase address in the content
	Assets  []uint64         // V5 asset list
	// hostile overrides
	ExtVersion *uint8
	BadSig     bool
	RawExtIDs  [][]byte
	RawContent []byte
}

// MakeSPR builds a staking price record.
func MakeSPR(p SPRParams) Entry {
	var content []byte
	if p.RawContent != nil {
		content = p.RawContent
	} else {
		c := new(opr.V2Content)
		c.Address = p.Payout
		c.Height = int32(p.Height)
		c.Assets = append([]uint64{}, p.Assets...)
		var err error
		content, err = c.Marshal()
		if err != nil {
			panic(err)
		}
	}
	ver := p.Version
	if p.ExtVersion != nil {
		ver = *p.ExtVersion
	}
	var third []byte
	if p.Version >= 6 {
		priv := ed25519.NewKeyFromSeed(p.Signer.Fs[:])
		pub := priv.Public().(ed25519.PublicKey)
		sig := ed25519.Sign(priv, content)
		if p.BadSig {
			sig[3] ^= 0x40
		}
		third = append(append([]byte{}, pub...), sig...)
	} else {
		third = []byte{} // pre-signature era: third ext id carries nothing the grader reads
	}
	ext := [][]byte{{ver}, append([]byte{}, p.Staker[:]...), third}
	if p.RawExtIDs != nil {
		ext = p.RawExtIDs
	}
	e := NewEntry(config.SPRChain, ext, content)
	e.Note = fmt.Sprintf("spr v%d staker=%s payout=%s", p.Version, p.Staker, p.Payout)
	return e
}
