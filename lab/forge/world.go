package forge

import (
	"fmt"
	"math/rand"
	"time"

	"github.com/Factom-Asset-Tokens/factom"
	"github.com/pegnet/pegnet/modules/grader"
	"github.com/pegnet/pegnet/modules/graderStake"
)

// World is a small helper that keeps the bookkeeping every honest chain needs:
// keys, block times, the previous-winner list OPRs must carry, and a price table.
type World struct {
	Eras        Eras
	Chain       *Chain
	Rng         *rand.Rand
	Miners      []Key
	PrevWinners []string
	T0          time.Time
	Prices      map[string]uint64 // asset name (without the p prefix) → 1e-8 USD
	seq         uint32
	// Specs remembers what every committed block was made of (so that variants of the chain can be forged).
	Specs map[uint32]BlockSpec
	Seqs  map[uint32]uint32
}

// NewWorld creates a world with nMiners miner keys and a default price table.
func NewWorld(e Eras, seed int64, nMiners int) *World {
	w := &World{Eras: e, Chain: NewChain(e), Rng: rand.New(rand.NewSource(seed)), T0: time.Unix(1600000200, 0).UTC(), Prices: map[string]uint64{}, Specs: map[uint32]BlockSpec{}, Seqs: map[uint32]uint32{}}
	for i := 0; i < nMiners; i++ {
		w.Miners = append(w.Miners, NewKey(fmt.Sprintf("miner-%d-%d", seed, i)))
	}
	for _, n := range AssetNames(5) {
		w.Prices[n] = 1e8
	}
	for _, n := range AssetNames(1) {
		w.Prices[n] = 1e8
	}
	return w
}

// Time is the directory block time of height h (10 minute blocks).
func (w *World) Time(h uint32) time.Time {
	return w.T0.Add(time.Duration(int64(h)-int64(w.Eras.Pegnet)) * 10 * time.Minute)
}

// EntryTime is a salt time valid for entries of block h.
func (w *World) EntryTime(h uint32) int64 { return w.Time(h).Unix() + 300 }

// PriceVector returns the price vector for a record version from a name→price table.
func PriceVector(version uint8, prices map[string]uint64) []uint64 {
	names := AssetNames(version)
	out := make([]uint64, len(names))
	for i, n := range names {
		out[i] = prices[n]
		if n == "PNT" {
			out[i] = prices["PEG"]
		}
	}
	return out
}

// StdOPRs builds n honest OPRs for height h, all reporting the same prices, paying w.Miners[i].
func (w *World) StdOPRs(h uint32, n int, prices map[string]uint64) []Entry {
	ver := w.Eras.OPRVersion(h)
	var out []Entry
	for i := 0; i < n; i++ {
		out = append(out, w.OPR(h, ver, i, prices, w.Miners[i%len(w.Miners)].FA().String()))
	}
	return out
}

// OPR builds one honest OPR with a given identity index.
func (w *World) OPR(h uint32, ver uint8, idx int, prices map[string]uint64, payout string) Entry {
	pw := w.prevFor(ver)
	return MakeOPR(OPRParams{
		Version: ver, Height: h, PrevWinners: pw, Address: payout,
		ID: fmt.Sprintf("miner%d", idx), Assets: PriceVector(ver, prices),
		Nonce: []byte{byte(idx), byte(idx >> 8), byte(h), byte(h >> 8), 0x5a},
	})
}

func (w *World) prevFor(ver uint8) []string {
	if len(w.PrevWinners) > 0 {
		return w.PrevWinners
	}
	return make([]string, WinnerCount(ver))
}

// GradeOPR runs the grading library on OPR entries exactly as posted.
func GradeOPR(ver uint8, h uint32, prev []string, ents []Entry) (grader.GradedBlock, error) {
	// prev is what the protocol calls the previous winners: the short-hash list of the most recent
	// block that had an OPR entry block (all blank while no block has had winners yet), nil before the
	// first such block
	g, err := grader.NewGrader(ver, int32(h), prev)
	if err != nil {
		return nil, err
	}
	for _, e := range ents {
		hh := e.Hash
		_ = g.AddOPR(hh[:], e.ExtIDs(), e.Parse().Content)
	}
	return g.Grade(), nil
}

// GradeSPR runs the staking grading library on the given (already filtered) entries.
func GradeSPR(ver uint8, h uint32, ents []Entry) (graderStake.GradedBlock, error) {
	g, err := graderStake.NewGrader(ver, int32(h))
	if err != nil {
		return nil, err
	}
	for _, e := range ents {
		hh := e.Hash
		_ = g.AddSPR(hh[:], e.ExtIDs(), e.Parse().Content)
	}
	return g.Grade(), nil
}

// Commit forges the block, appends it to the chain and advances the
// previous-winner list the way the protocol defines it.
func (w *World) Commit(s BlockSpec) *Block {
	if s.Time.IsZero() {
		s.Time = w.Time(s.Height)
	}
	w.seq++
	b := Build(s, w.seq)
	w.Chain.Add(b)
	w.Specs[s.Height] = s
	w.Seqs[s.Height] = w.seq
	if len(s.OPR) > 0 {
		ver := w.Eras.OPRVersion(s.Height)
		gb, err := GradeOPR(ver, s.Height, w.PrevWinners, s.OPR)
		if err == nil && gb != nil {
			w.PrevWinners = append([]string{}, gb.WinnersShortHashes()...)
		}
	}
	return b
}

// StdSPRs builds honest staking records for the given staker keys (payout = staker address).
func (w *World) StdSPRs(h uint32, stakers []Key, prices map[string]uint64) []Entry {
	ver := w.Eras.SPRVersion(h)
	var out []Entry
	for _, k := range stakers {
		out = append(out, MakeSPR(SPRParams{Version: ver, Height: h, Staker: k.FA(), Signer: k, Payout: k.FA().String(), Assets: PriceVector(5, prices)}))
	}
	return out
}

// BurnTx builds a factoid transaction that burns amount FCT from the address.
func BurnTx(from factom.FAAddress, amount uint64, timeMS int64, burnRCD [32]byte) FTx {
	return FTx{TimeMS: timeMS, Inputs: []FIO{{amount, factom.Bytes32(from)}}, ECOuts: []FIO{{0, factom.Bytes32(burnRCD)}}, Note: "burn"}
}

// Variant forges a copy of the chain in which edit may change each block's content.
func (w *World) Variant(edit func(h uint32, s *BlockSpec)) *Chain {
	c := NewChain(w.Eras)
	for _, h := range w.Chain.Heights() {
		s := w.Specs[h]
		s.OPR = append([]Entry{}, s.OPR...)
		s.SPR = append([]Entry{}, s.SPR...)
		s.Tx = append([]Entry{}, s.Tx...)
		s.FTxs = append([]FTx{}, s.FTxs...)
		if s.OPR != nil && len(s.OPR) == 0 {
			s.OPR = nil
		}
		edit(h, &s)
		c.Add(Build(s, w.Seqs[h]))
	}
	return c
}
