package forge

import (
	"bytes"
	"crypto/sha256"
	"encoding/gob"
	"encoding/hex"
	"fmt"
	"os"
	"sort"
	"sync"
	"time"

	"github.com/Factom-Asset-Tokens/factom"
	"github.com/pegnet/pegnetd/config"
	"github.com/pegnet/pegnetd/fat/fat2"
)

// Eras is the full set of activation heights the daemon consults. The lab sets
// the package variables from it in every process that touches the daemon code.
type Eras struct {
	Pegnet          uint32 // config.PegnetActivation (genesis; first synced block is Pegnet+1)
	GradingV2       uint32
	TxConv          uint32 // TransactionConversionActivation
	PEGPricing      uint32
	OneWaypFCT      uint32
	ConversionLimit uint32 // PegnetConversionLimitActivation
	PEGFreeFloat    uint32 // PEGFreeFloatingPriceActivation
	V4              uint32 // V4OPRUpdate
	RCDE            uint32 // fat2.Fat2RCDEActivation
	V20             uint32
	V20Dev          uint32 // V20DevRewardsHeightActivation
	SprSig          uint32
	OneWaySmall     uint32
	V202            uint32
	V204            uint32
	V204Burn        uint32
	PIP10           uint32
}

// Mainnet returns the literal mainnet values as compiled into /repo.
func Mainnet() Eras {
	return Eras{
		Pegnet: 206421, GradingV2: 210330, TxConv: 213237, PEGPricing: 214287, OneWaypFCT: 220346,
		ConversionLimit: 222270, PEGFreeFloat: 222270, V4: 231620, RCDE: 231620, V20: 258796,
		V20Dev: 260118, SprSig: 260118, OneWaySmall: 274036, V202: 274036, V204: 288878,
		V204Burn: 294206, PIP10: 295190,
	}
}

// Current reads the package variables as they are now (i.e. what is compiled
// into /repo unless Apply was called).
func Current() Eras {
	return Eras{
		Pegnet: config.PegnetActivation, GradingV2: config.GradingV2Activation, TxConv: config.TransactionConversionActivation,
		PEGPricing: config.PEGPricingActivation, OneWaypFCT: config.OneWaypFCTConversions,
		ConversionLimit: config.PegnetConversionLimitActivation, PEGFreeFloat: config.PEGFreeFloatingPriceActivation,
		V4: config.V4OPRUpdate, RCDE: fat2.Fat2RCDEActivation, V20: config.V20HeightActivation,
		V20Dev: config.V20DevRewardsHeightActivation, SprSig: config.SprSignatureActivation,
		OneWaySmall: config.OneWaySmallAssetsConversions, V202: config.V202EnhanceActivation,
		V204: config.V204EnhanceActivation, V204Burn: config.V204BurnMintedTokenActivation, PIP10: config.PIP10AverageActivation,
	}
}

// Apply sets the daemon's package variables.
func (e Eras) Apply() {
	config.PegnetActivation = e.Pegnet
	config.GradingV2Activation = e.GradingV2
	config.TransactionConversionActivation = e.TxConv
	config.PEGPricingActivation = e.PEGPricing
	config.OneWaypFCTConversions = e.OneWaypFCT
	config.PegnetConversionLimitActivation = e.ConversionLimit
	config.PEGFreeFloatingPriceActivation = e.PEGFreeFloat
	config.V4OPRUpdate = e.V4
	fat2.Fat2RCDEActivation = e.RCDE
	config.V20HeightActivation = e.V20
	config.V20DevRewardsHeightActivation = e.V20Dev
	config.SprSignatureActivation = e.SprSig
	config.OneWaySmallAssetsConversions = e.OneWaySmall
	config.V202EnhanceActivation = e.V202
	config.V204EnhanceActivation = e.V204
	config.V204BurnMintedTokenActivation = e.V204Burn
	config.PIP10AverageActivation = e.PIP10
}

// Far is a height no lab chain reaches.
const Far = uint32(4000000000)

// AllAt returns eras where everything up to and including `upto` activates at
// base and everything later is Far. Names follow the order of mainnet.
func ErasCompressed(base uint32, gaps [16]uint32) Eras {
	// order: GradingV2, TxConv, PEGPricing, OneWaypFCT, ConversionLimit(=PEGFreeFloat), V4(=RCDE), V20, V20Dev(=SprSig), V202(=OneWaySmall), V204, V204Burn, PIP10
	h := base
	next := func(i int) uint32 { h += gaps[i]; return h }
	e := Eras{Pegnet: base}
	e.GradingV2 = next(0)
	e.TxConv = next(1)
	e.PEGPricing = next(2)
	e.OneWaypFCT = next(3)
	e.ConversionLimit = next(4)
	e.PEGFreeFloat = e.ConversionLimit
	e.V4 = next(5)
	e.RCDE = e.V4
	e.V20 = next(6)
	e.V20Dev = next(7)
	e.SprSig = e.V20Dev
	e.V202 = next(8)
	e.OneWaySmall = e.V202
	e.V204 = next(9)
	e.V204Burn = next(10)
	e.PIP10 = next(11)
	return e
}

// BlockSpec describes one directory block to forge.
type BlockSpec struct {
	Height uint32
	Time   time.Time
	// nil slice = the chain has no entry block at this height.
	OPR, SPR, Tx []Entry
	HasOPR       bool // force an (empty) eblock even when OPR is empty – not used by default
	FTxs         []FTx
	// Extra entry blocks of unrelated chains (ignored by pegnetd, present for realism)
	Other map[factom.Bytes32][]Entry
}

// Block is a forged directory block with everything the fake factomd serves for it.
type Block struct {
	Height uint32
	Time   int64
	DBlock []byte
	KeyMR  factom.Bytes32
	Raw    map[factom.Bytes32][]byte // eblock keymr → raw eblock, entry hash → raw entry
	FBlock []byte
	// EntryOrder lists entry hashes per tracked chain in eblock order (oracles use it).
	OPR, SPR, Tx []Entry
	FTxs         []FTx
}

// Build forges the block.
func Build(s BlockSpec, seq uint32) *Block {
	b := &Block{Height: s.Height, Time: s.Time.Unix(), Raw: map[factom.Bytes32][]byte{}}
	ebs := map[factom.Bytes32]factom.Bytes32{}
	add := func(chain factom.Bytes32, ents []Entry) {
		if ents == nil {
			return
		}
		if len(ents) == 0 {
			return // an entry block without entries does not exist on Factom
		}
		for _, e := range ents {
			b.Raw[e.Hash] = e.Raw
		}
		raw, k := buildEBlock(chain, s.Height, seq, ents)
		b.Raw[k] = raw
		ebs[chain] = k
	}
	add(config.OPRChain, s.OPR)
	add(config.SPRChain, s.SPR)
	add(config.TransactionChain, s.Tx)
	for c, ents := range s.Other {
		add(c, ents)
	}
	b.OPR, b.SPR, b.Tx, b.FTxs = s.OPR, s.SPR, s.Tx, s.FTxs
	b.FBlock = buildFBlock(s.Height, s.Time, s.FTxs)
	b.DBlock, b.KeyMR = buildDBlock(s.Height, s.Time, factom.Bytes32{3}, ebs)
	return b
}

// Chain is a forged chain: the content of the fake factomd.
type Chain struct {
	mu     sync.RWMutex
	Eras   Eras
	Blocks map[uint32]*Block
	Tip    uint32
}

func NewChain(e Eras) *Chain {
	return &Chain{Eras: e, Blocks: map[uint32]*Block{}, Tip: e.Pegnet}
}

// Add appends (or replaces) a block and raises the tip.
func (c *Chain) Add(b *Block) {
	c.mu.Lock()
	defer c.mu.Unlock()
	c.Blocks[b.Height] = b
	if b.Height > c.Tip {
		c.Tip = b.Height
	}
}

func (c *Chain) Get(h uint32) *Block {
	c.mu.RLock()
	defer c.mu.RUnlock()
	return c.Blocks[h]
}

func (c *Chain) GetTip() uint32 {
	c.mu.RLock()
	defer c.mu.RUnlock()
	return c.Tip
}

// Lookup finds a raw object (entry or entry block) by hash, searching from the tip down
// (hashes are unique across blocks except for deliberate repeats, which are byte-identical).
func (c *Chain) Lookup(h factom.Bytes32, hint uint32) ([]byte, bool) {
	c.mu.RLock()
	defer c.mu.RUnlock()
	if b, ok := c.Blocks[hint]; ok {
		if r, ok := b.Raw[h]; ok {
			return r, true
		}
	}
	for _, b := range c.Blocks {
		if r, ok := b.Raw[h]; ok {
			return r, true
		}
	}
	return nil, false
}

// Heights returns the sorted heights present.
func (c *Chain) Heights() []uint32 {
	c.mu.RLock()
	defer c.mu.RUnlock()
	hs := make([]uint32, 0, len(c.Blocks))
	for h := range c.Blocks {
		hs = append(hs, h)
	}
	sort.Slice(hs, func(i, j int) bool { return hs[i] < hs[j] })
	return hs
}

type chainFile struct {
	Eras   Eras
	Tip    uint32
	Blocks []*Block
}

// Save writes the chain to a file (gob).
func (c *Chain) Save(path string) error {
	c.mu.RLock()
	defer c.mu.RUnlock()
	cf := chainFile{Eras: c.Eras, Tip: c.Tip}
	for _, h := range func() []uint32 {
		hs := make([]uint32, 0, len(c.Blocks))
		for h := range c.Blocks {
			hs = append(hs, h)
		}
		sort.Slice(hs, func(i, j int) bool { return hs[i] < hs[j] })
		return hs
	}() {
		cf.Blocks = append(cf.Blocks, c.Blocks[h])
	}
	var buf bytes.Buffer
	if err := gob.NewEncoder(&buf).Encode(&cf); err != nil {
		return err
	}
	return os.WriteFile(path, buf.Bytes(), 0644)
}

// Load reads a chain file.
func Load(path string) (*Chain, error) {
	data, err := os.ReadFile(path)
	if err != nil {
		return nil, err
	}
	var cf chainFile
	if err := gob.NewDecoder(bytes.NewReader(data)).Decode(&cf); err != nil {
		return nil, err
	}
	c := NewChain(cf.Eras)
	for _, b := range cf.Blocks {
		c.Blocks[b.Height] = b
	}
	c.Tip = cf.Tip
	return c, nil
}

// Digest is a stable hash of the chain's content (for evidence / replay identity).
func (c *Chain) Digest() string {
	h := sha256.New()
	for _, ht := range c.Heights() {
		b := c.Get(ht)
		fmt.Fprintf(h, "%d:", ht)
		h.Write(b.KeyMR[:])
		h.Write(b.FBlock)
	}
	return hex.EncodeToString(h.Sum(nil))[:16]
}
