// Package forge builds real Factom binary objects (entries, entry blocks,
// directory blocks, factoid blocks) that the factom client library used by
// pegnetd parses and verifies (Merkle roots, KeyMRs).
package forge

import (
	"bytes"
	"encoding/binary"
	"sort"
	"time"

	"github.com/Factom-Asset-Tokens/factom"
	"github.com/Factom-Asset-Tokens/factom/varintf"
)

// Entry is a raw factom entry plus its hash and the minute (1..10) of the
// block it is placed in (its timestamp is dblock time + minute).
type Entry struct {
	Raw    []byte
	Hash   factom.Bytes32
	Minute int
	// Note is a free-form annotation used by scripts/oracles ("what this entry is
	// by construction"). It never reaches the daemon.
	Note string
}

// MaxEntryBody is the largest ExtIDs+content payload Factom accepts in one entry.
const MaxEntryBody = 10240

// BodySize returns the encoded size of ext ids + content.
func BodySize(extids [][]byte, content []byte) int {
	n := len(content)
	for _, x := range extids {
		n += 2 + len(x)
	}
	return n
}

// NewEntry marshals an entry for the chain with the given external ids and content.
func NewEntry(chain factom.Bytes32, extids [][]byte, content []byte) Entry {
	c := chain
	e := factom.Entry{ChainID: &c, Content: content}
	e.ExtIDs = make([]factom.Bytes, 0, len(extids))
	for _, x := range extids {
		if x == nil {
			x = []byte{}
		}
		e.ExtIDs = append(e.ExtIDs, factom.Bytes(x))
	}
	if e.Content == nil {
		e.Content = factom.Bytes{}
	}
	raw, err := e.MarshalBinary()
	if err != nil {
		panic("forge: entry marshal: " + err.Error())
	}
	return Entry{Raw: raw, Hash: factom.ComputeEntryHash(raw), Minute: 5}
}

// Parse decodes the raw entry again (used by oracles and self-checks).
func (e Entry) Parse() factom.Entry {
	var en factom.Entry
	if err := en.UnmarshalBinary(e.Raw); err != nil {
		panic("forge: entry unmarshal: " + err.Error())
	}
	h := e.Hash
	en.Hash = &h
	return en
}

// ExtIDs returns the external ids as plain byte slices.
func (e Entry) ExtIDs() [][]byte {
	en := e.Parse()
	out := make([][]byte, len(en.ExtIDs))
	for i := range en.ExtIDs {
		out[i] = en.ExtIDs[i]
	}
	return out
}

func buildEBlock(chain factom.Bytes32, height, seq uint32, entries []Entry) (raw []byte, keymr factom.Bytes32) {
	objects := [][]byte{}
	curMin := 0
	flush := func(min int) {
		mm := factom.Bytes32{31: byte(min)}
		objects = append(objects, mm[:])
	}
	for i := range entries {
		m := entries[i].Minute
		if m < 1 {
			m = 1
		}
		if m > 10 {
			m = 10
		}
		if m < curMin {
			m = curMin
		}
		if curMin != 0 && m != curMin {
			flush(curMin)
		}
		curMin = m
		h := entries[i].Hash
		objects = append(objects, append([]byte{}, h[:]...))
	}
	if curMin == 0 {
		curMin = 10
	}
	flush(curMin)
	bodyMR, err := factom.ComputeEBlockBodyMR(objects)
	if err != nil {
		panic(err)
	}
	buf := new(bytes.Buffer)
	buf.Write(chain[:])
	buf.Write(bodyMR[:])
	buf.Write(make([]byte, 32)) // prev keymr
	buf.Write(make([]byte, 32)) // prev full hash
	binary.Write(buf, binary.BigEndian, seq)
	binary.Write(buf, binary.BigEndian, height)
	binary.Write(buf, binary.BigEndian, uint32(len(objects)))
	for _, o := range objects {
		buf.Write(o)
	}
	raw = buf.Bytes()
	hh := factom.ComputeEBlockHeaderHash(raw)
	keymr = factom.ComputeKeyMR(&hh, &bodyMR)
	return
}

func buildDBlock(height uint32, ts time.Time, fblockKeyMR factom.Bytes32, ebs map[factom.Bytes32]factom.Bytes32) (raw []byte, keymr factom.Bytes32) {
	type pair struct{ c, k factom.Bytes32 }
	ps := []pair{
		{factom.ABlockChainID(), factom.Bytes32{1}},
		{factom.ECBlockChainID(), factom.Bytes32{2}},
		{factom.FBlockChainID(), fblockKeyMR},
	}
	for c, k := range ebs {
		ps = append(ps, pair{c, k})
	}
	sort.Slice(ps, func(i, j int) bool { return bytes.Compare(ps[i].c[:], ps[j].c[:]) < 0 })
	elements := [][]byte{}
	for _, p := range ps {
		elements = append(elements, append(append([]byte{}, p.c[:]...), p.k[:]...))
	}
	bodyMR, err := factom.ComputeDBlockBodyMR(elements)
	if err != nil {
		panic(err)
	}
	buf := new(bytes.Buffer)
	buf.WriteByte(0)
	buf.Write([]byte{0xfa, 0x92, 0xe5, 0xa2})
	buf.Write(bodyMR[:])
	buf.Write(make([]byte, 32))
	buf.Write(make([]byte, 32))
	binary.Write(buf, binary.BigEndian, uint32(ts.Unix()/60))
	binary.Write(buf, binary.BigEndian, height)
	binary.Write(buf, binary.BigEndian, uint32(len(ps)))
	for _, e := range elements {
		buf.Write(e)
	}
	raw = buf.Bytes()
	hh := factom.ComputeDBlockHeaderHash(raw)
	keymr = factom.ComputeKeyMR(&hh, &bodyMR)
	return
}

// FTx is a factoid transaction description.
type FTx struct {
	TimeMS  int64
	Inputs  []FIO
	Outputs []FIO
	ECOuts  []FIO
	// Signer keys for each input (only used to fill a plausible RCD/signature; pegnetd does not verify them).
	Note string
}

// FIO is a factoid transaction input or output.
type FIO struct {
	Amount  uint64
	Address factom.Bytes32
}

func marshalFTx(t FTx) []byte {
	buf := new(bytes.Buffer)
	buf.Write(varintf.Encode(2))
	ms := make([]byte, 8)
	binary.BigEndian.PutUint64(ms, uint64(t.TimeMS))
	buf.Write(ms[2:])
	buf.WriteByte(byte(len(t.Inputs)))
	buf.WriteByte(byte(len(t.Outputs)))
	buf.WriteByte(byte(len(t.ECOuts)))
	for _, set := range [][]FIO{t.Inputs, t.Outputs, t.ECOuts} {
		for _, io := range set {
			buf.Write(varintf.Encode(io.Amount))
			buf.Write(io.Address[:])
		}
	}
	// one RCD1 + signature block per input (content irrelevant to pegnetd; sizes must be right)
	for range t.Inputs {
		buf.WriteByte(0x01)
		buf.Write(make([]byte, 32))
		buf.Write(make([]byte, 64))
	}
	return buf.Bytes()
}

func buildFBlock(height uint32, ts time.Time, txs []FTx) []byte {
	body := new(bytes.Buffer)
	// coinbase first
	all := append([]FTx{{TimeMS: ts.Unix() * 1000}}, txs...)
	for _, t := range all {
		body.Write(marshalFTx(t))
	}
	for i := 0; i < 10; i++ {
		body.WriteByte(0)
	}
	buf := new(bytes.Buffer)
	c := factom.FBlockChainID()
	buf.Write(c[:])
	buf.Write(make([]byte, 96)) // bodymr, prevkeymr, prevledgerkeymr (not verified by the client)
	binary.Write(buf, binary.BigEndian, uint64(1000))
	binary.Write(buf, binary.BigEndian, height)
	buf.WriteByte(0) // expansion size
	binary.Write(buf, binary.BigEndian, uint32(len(all)))
	binary.Write(buf, binary.BigEndian, uint32(body.Len()))
	buf.Write(body.Bytes())
	return buf.Bytes()
}
