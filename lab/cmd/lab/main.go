package main

import (
	"fmt"
	"os"

	"verif/lab/checks"
	"verif/lab/orch"
)

func main() {
	if len(os.Args) < 2 {
		fmt.Fprintln(os.Stderr, "usage: lab check <ID> [-tier quick|thorough] [-seed N] [-replay file] | lab child <job.json> | lab smoke")
		os.Exit(2)
	}
	switch os.Args[1] {
	case "child":
		os.Exit(orch.ChildMain(os.Args[2]))
	case "check":
		os.Exit(checks.Main(os.Args[2:]))
	case "selfcheck":
		os.Exit(checks.SelfCheck(os.Args[2:]))
	case "waltest":
		os.Exit(checks.WalTest(os.Args[2:]))
	case "smoke":
		os.Exit(checks.Smoke(os.Args[2:]))
	default:
		fmt.Fprintln(os.Stderr, "unknown command", os.Args[1])
		os.Exit(2)
	}
}
