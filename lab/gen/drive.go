package gen

import (
	"database/sql"

	"github.com/pegnet/pegnetd/fat/fat2"
	"verif/lab/forge"
	"verif/lab/harness"
)

// ReadView reads the committed ledger a generator may look at.
func ReadView(db *sql.DB, h uint32) (*View, error) {
	bal, _, err := harness.ReadBalances(db, "pn_addresses")
	if err != nil {
		return nil, err
	}
	v := &View{Height: h, Balances: bal, LastRates: map[fat2.PTicker]uint64{}}
	var rh sql.NullInt64
	if err := db.QueryRow("SELECT MAX(height) FROM pn_rate WHERE height < ?", h).Scan(&rh); err == nil && rh.Valid {
		v.LastRatesH = uint32(rh.Int64)
		m, err := harness.ReadRates(db, v.LastRatesH)
		if err != nil {
			return nil, err
		}
		v.LastRates = harness.RatesByTicker(m)
	}
	return v, nil
}

// Drive forges and syncs blocks one at a time up to `upto`. each (optional) runs at the
// quiescent point after block h is committed.
func Drive(n *harness.Node, g Generator, w *forge.World, upto uint32, wo harness.WaitOpts, each func(h uint32, b *forge.Block) error) error {
	return DriveP(&n, g, w, upto, wo, each)
}

// DriveP is Drive for a daemon that may be replaced (stopped and started again on the same database) by
// the callback between two blocks.
func DriveP(np **harness.Node, g Generator, w *forge.World, upto uint32, wo harness.WaitOpts, each func(h uint32, b *forge.Block) error) error {
	s, err := (*np).Synced()
	if err != nil {
		return err
	}
	if s == 0 {
		s = w.Eras.Pegnet
	}
	for h := s + 1; h <= upto; h++ {
		v, err := ReadView((*np).RO, h)
		if err != nil {
			return err
		}
		spec := g.Next(v)
		b := w.Commit(spec)
		if err := (*np).WaitSynced(h, wo); err != nil {
			return err
		}
		if each != nil {
			if err := each(h, b); err != nil {
				return err
			}
		}
	}
	return nil
}
