package gen

import (
	"fmt"

	"github.com/Factom-Asset-Tokens/factom"
	"github.com/pegnet/pegnetd/fat/fat2"
	"github.com/pegnet/pegnetd/node"
	"verif/lab/forge"
)

// TieSetup describes the tie groups a chain was seeded with (for evidence and oracles).
type TieSetup struct {
	Whale  forge.Key
	Groups [][]forge.Key // holders with identical stake per group
	Bank   []forge.Key   // users submitting identical PEG requests in the bank era
	BankAt []uint32
	BigAt  []uint32
}

// AddTies seeds the chain with exact ties:
//   - groups of holders with identical non-PEG balances that never move (equal pUSD stake at every
//     snapshot, the largest group being the top stake and the total above the 4 500×144 PEG cap);
//   - identical PEG requests in the bank era whose total exceeds the bank, before and after the V4 switch;
//   - entry blocks with more than a hundred entries.
// TieDivisor scales the tie groups' holdings down (1 = the default 200 000 / 1 000 pUSD per holder).
var TieDivisor uint64 = 1

func AddTies(m *Mixed, seed int64) *TieSetup {
	e := m.W.Eras
	ts := &TieSetup{Whale: forge.NewKey(fmt.Sprintf("whale-%d", seed))}
	whale := ts.Whale.FA()
	mk := func(label string, n int) []forge.Key {
		var ks []forge.Key
		for i := 0; i < n; i++ {
			ks = append(ks, forge.NewKey(fmt.Sprintf("%s-%d-%d", label, seed, i)))
		}
		return ks
	}
	gA, gB, gC := mk("tieA", 5), mk("tieB", 4), mk("tieC", 3)
	ts.Groups = [][]forge.Key{gA, gB, gC}
	ts.Bank = mk("bank", 3)

	h0 := e.TxConv
	for i := uint32(0); i < 8; i++ {
		m.ForceGraded[h0+i] = true
	}
	// h0: the whale burns 10M FCT
	m.Schedule(h0, func(v *View, s *forge.BlockSpec) {
		s.FTxs = append(s.FTxs, forge.BurnTx(whale, 10_000_000*1e8, m.W.Time(h0).Unix()*1000+7, node.BurnRCD))
	})
	// h0+1: convert most of it to pUSD (executes at h0+2)
	m.Schedule(h0+1, func(v *View, s *forge.BlockSpec) {
		s.Tx = append(s.Tx, forge.SignedBatch([]forge.Tx{forge.Conversion(whale, fat2.PTickerFCT, 9_000_000*1e8, fat2.PTickerUSD)}, m.W.EntryTime(h0+1), ts.Whale))
	})
	// h0+3: distribute pUSD to groups A and B and the bank users; convert some to pEUR
	m.Schedule(h0+3, func(v *View, s *forge.BlockSpec) {
		var outs []forge.Out
		var total uint64
		for _, k := range gA {
			outs = append(outs, forge.Out{Addr: k.FA(), Amount: 200_000 * 1e8 / TieDivisor})
			total += 200_000 * 1e8 / TieDivisor
		}
		for _, k := range gB {
			outs = append(outs, forge.Out{Addr: k.FA(), Amount: 1_000 * 1e8})
			total += 1_000 * 1e8
		}
		for _, k := range ts.Bank {
			outs = append(outs, forge.Out{Addr: k.FA(), Amount: 100 * 1e8})
			total += 100 * 1e8
		}
		s.Tx = append(s.Tx, forge.SignedBatch([]forge.Tx{{From: whale, Asset: fat2.PTickerUSD, Amount: total, To: outs}}, m.W.EntryTime(h0+3), ts.Whale))
		s.Tx = append(s.Tx, forge.SignedBatch([]forge.Tx{forge.Conversion(whale, fat2.PTickerUSD, 1_000*1e8, fat2.PTickerEUR)}, m.W.EntryTime(h0+3)+1, ts.Whale))
	})
	// h0+5: pEUR to group C
	m.Schedule(h0+5, func(v *View, s *forge.BlockSpec) {
		var outs []forge.Out
		for _, k := range gC {
			outs = append(outs, forge.Out{Addr: k.FA(), Amount: 10 * 1e8})
		}
		s.Tx = append(s.Tx, forge.SignedBatch([]forge.Tx{{From: whale, Asset: fat2.PTickerEUR, Amount: 30 * 1e8, To: outs}}, m.W.EntryTime(h0+5), ts.Whale))
	})
	// identical PEG requests: before and after the V4 switch
	for _, at := range []uint32{e.ConversionLimit + 2, e.V4 + 2} {
		at := at
		if at+3 >= e.V20 {
			continue
		}
		ts.BankAt = append(ts.BankAt, at)
		m.ForceGraded[at] = true
		m.ForceGraded[at+1] = true
		m.Schedule(at, func(v *View, s *forge.BlockSpec) {
			for i, k := range ts.Bank {
				s.Tx = append(s.Tx, forge.SignedBatch([]forge.Tx{forge.Conversion(k.FA(), fat2.PTickerUSD, 20*1e8, fat2.PTickerPEG)}, m.W.EntryTime(at)+int64(i), k))
			}
		})
	}
	// big entry blocks
	for _, at := range []uint32{h0 + 6, e.V20 + 3} {
		at := at
		ts.BigAt = append(ts.BigAt, at)
		m.Schedule(at, func(v *View, s *forge.BlockSpec) {
			for i := 0; i < 110; i++ {
				to := m.Actors[i%len(m.Actors)].FA()
				s.Tx = append(s.Tx, forge.SignedBatch([]forge.Tx{forge.Transfer(whale, fat2.PTickerUSD, uint64(1+i), to)}, m.W.EntryTime(at)+int64(i%50), ts.Whale))
			}
		})
	}
	return ts
}

// Addrs lists the addresses of a key group.
func Addrs(ks []forge.Key) []factom.FAAddress {
	var out []factom.FAAddress
	for _, k := range ks {
		out = append(out, k.FA())
	}
	return out
}
