// Package gen contains workload generators: functions that, given the observed
// ledger after block h-1, forge block h.
package gen

import (
	"fmt"
	"math/rand"
	"sort"

	"github.com/Factom-Asset-Tokens/factom"
	"github.com/pegnet/pegnetd/fat/fat2"
	"github.com/pegnet/pegnetd/node"
	"verif/lab/forge"
	"verif/lab/harness"
)

// View is what a generator may look at: the committed ledger after the previous block.
type View struct {
	Height   uint32 // height about to be forged
	Balances harness.Balances
	// LastRates are the most recent recorded rates (by ticker) and their height.
	LastRates  map[fat2.PTicker]uint64
	LastRatesH uint32
}

// Generator forges one block at a time.
type Generator interface {
	Next(v *View) forge.BlockSpec
}

// SmallCaps are the destinations closed by OneWaySmallAssetsConversions (besides PEG).
var SmallCaps = []fat2.PTicker{fat2.PTickerDCR, fat2.PTickerDGB, fat2.PTickerDOGE, fat2.PTickerHBAR, fat2.PTickerONT,
	fat2.PTickerRVN, fat2.PTickerBAT, fat2.PTickerALGO, fat2.PTickerBIF, fat2.PTickerETB, fat2.PTickerKES,
	fat2.PTickerNGN, fat2.PTickerRWF, fat2.PTickerTZS, fat2.PTickerUGX}

func IsSmallCap(t fat2.PTicker) bool {
	for _, s := range SmallCaps {
		if s == t {
			return true
		}
	}
	return false
}

// TickerName returns the OPR asset name of a ticker ("USD" for pUSD, "PEG" for PEG).
func TickerName(t fat2.PTicker) string {
	s := t.String()
	if s == "PEG" {
		return s
	}
	return s[1:]
}

// AssetsAt lists tickers that have a price in records of the era of height h.
func AssetsAt(e forge.Eras, h uint32) []fat2.PTicker {
	var out []fat2.PTicker
	for _, n := range forge.AssetNames(e.OPRVersion(h)) {
		name := "p" + n
		if n == "PEG" || n == "PNT" {
			name = "PEG"
		}
		if t := fat2.StringToTicker(name); t != fat2.PTickerInvalid {
			out = append(out, t)
		}
	}
	return out
}

// MixedOpts tune the mixed workload.
type MixedOpts struct {
	NMiners       int
	NUsers        int
	TxPerBlock    int     // average number of tx entries per block
	UngradedProb  float64 // probability that a block has too few OPRs (no rates)
	NoOPRProb     float64 // probability of no OPR eblock at all
	BurnProb      float64 // FCT burn per block before 2.0
	EthUsers      int     // users with secp256k1 keys (RCD-e)
	PriceDrift    bool
	ForbiddenProb float64 // probability that a conversion targets a destination that may be closed
	OverdrawProb  float64
	MultiTxProb   float64
	SPR           bool // post staking records from V20
	// Avoid the shapes that hit recorded legacy defects (DESIGN.md appendix A). Default true via NewMixed.
	AvoidKnown bool
}

// Mixed is the standard rich workload: miners, stakers, users, transfers, conversions, burns.
type Mixed struct {
	W      *forge.World
	O      MixedOpts
	Users  []forge.Key
	Actors []forge.Key
	byAddr map[factom.FAAddress]forge.Key
	rng    *rand.Rand
	// Script log: what was forged, for oracles and evidence.
	Log []string
	// At holds scripted additions per height (features); ForceGraded makes a height carry a full OPR set.
	At          map[uint32][]func(v *View, spec *forge.BlockSpec)
	ForceGraded map[uint32]bool
	// ForceUngraded makes a height carry too few records of either kind (no rates).
	ForceUngraded map[uint32]bool
	// ForceEmpty makes a height carry no entry on any tracked chain.
	ForceEmpty map[uint32]bool
}

// DefaultMixedOpts is a busy but well-formed workload.
func DefaultMixedOpts() MixedOpts {
	return MixedOpts{NMiners: 30, NUsers: 12, TxPerBlock: 6, UngradedProb: 0.08, NoOPRProb: 0.02, BurnProb: 0.5, EthUsers: 3,
		PriceDrift: true, ForbiddenProb: 0.1, OverdrawProb: 0.1, MultiTxProb: 0.3, SPR: true, AvoidKnown: true}
}

// NewMixed sets up the world for a mixed workload. It also shortens the averaging window
// (node.AveragePeriod) for compressed chains when shortAvg > 0.
func NewMixed(e forge.Eras, seed int64, o MixedOpts, shortAvg uint64) *Mixed {
	if shortAvg > 0 {
		node.AveragePeriod = shortAvg
		node.AverageRequired = shortAvg / 2
	}
	w := forge.NewWorld(e, seed, o.NMiners)
	m := &Mixed{W: w, O: o, rng: rand.New(rand.NewSource(seed ^ 0x5eed)), byAddr: map[factom.FAAddress]forge.Key{},
		At: map[uint32][]func(v *View, spec *forge.BlockSpec){}, ForceGraded: map[uint32]bool{}, ForceUngraded: map[uint32]bool{}, ForceEmpty: map[uint32]bool{}}
	for i := 0; i < o.NUsers; i++ {
		m.Users = append(m.Users, forge.NewKey(fmt.Sprintf("user-%d-%d", seed, i)))
	}
	for i := 0; i < o.EthUsers; i++ {
		m.Users = append(m.Users, forge.NewEthKey(fmt.Sprintf("ethuser-%d-%d", seed, i)))
	}
	m.Actors = append(append([]forge.Key{}, w.Miners...), m.Users...)
	for _, k := range m.Actors {
		m.byAddr[k.FA()] = k
	}
	// a spread of prices so that conversions are not 1:1
	names := forge.AssetNames(5)
	for i, n := range names {
		w.Prices[n] = uint64(1e8) + uint64(i)*3_000_000 + uint64(m.rng.Intn(900_000))
	}
	w.Prices["XBT"] = 9_000 * 1e8
	w.Prices["XAU"] = 1_800 * 1e8
	w.Prices["JPY"] = 900_000
	w.Prices["KRW"] = 84_000
	w.Prices["UGX"] = 27_000
	w.Prices["PEG"] = 250_000
	w.Prices["FCT"] = 2 * 1e8
	w.Prices["USD"] = 1e8
	w.Prices["XPD"], w.Prices["XPT"] = 2000*1e8, 900*1e8
	return m
}

func (m *Mixed) logf(f string, a ...interface{}) { m.Log = append(m.Log, fmt.Sprintf(f, a...)) }

func (m *Mixed) drift() {
	if !m.O.PriceDrift {
		return
	}
	for n, p := range m.W.Prices {
		if n == "USD" {
			continue
		}
		// ±0.4 % per block keeps OPR and SPR inside every tolerance band (they share the table anyway)
		d := int64(p) * int64(m.rng.Intn(81)-40) / 10000
		np := int64(p) + d
		if np < 1000 {
			np = 1000
		}
		m.W.Prices[n] = uint64(np)
	}
}

func (m *Mixed) sortedHolders(b harness.Balances) []factom.FAAddress {
	var out []factom.FAAddress
	for a := range b {
		if _, ok := m.byAddr[a]; ok {
			out = append(out, a)
		}
	}
	sort.Slice(out, func(i, j int) bool { return string(out[i][:]) < string(out[j][:]) })
	return out
}

func heldAssets(m map[fat2.PTicker]uint64) []fat2.PTicker {
	var out []fat2.PTicker
	for t, v := range m {
		if v > 0 {
			out = append(out, t)
		}
	}
	sort.Slice(out, func(i, j int) bool { return out[i] < out[j] })
	return out
}

// Next forges block v.Height.
func (m *Mixed) Next(v *View) forge.BlockSpec {
	h := v.Height
	e := m.W.Eras
	spec := forge.BlockSpec{Height: h, Time: m.W.Time(h)}
	m.drift()

	// --- oracle records
	r := m.rng.Float64()
	nOPR := 30
	switch {
	case r < m.O.NoOPRProb:
		nOPR = 0
	case r < m.O.NoOPRProb+m.O.UngradedProb:
		nOPR = 3 + m.rng.Intn(6) // fewer than the winner count: block has no rates
	}
	if m.ForceGraded[h] {
		nOPR = 30
	}
	if m.ForceUngraded[h] {
		nOPR = 4
	}
	if nOPR > 0 {
		spec.OPR = m.W.StdOPRs(h, nOPR, m.W.Prices)
	}
	if m.O.SPR && h >= e.V20 {
		// stakers: the lab's actors among the top-100 PEG holders of the previous state
		top := TopPEG(v.Balances, 100)
		var st []forge.Key
		for _, a := range top {
			if k, ok := m.byAddr[a]; ok && !k.IsEth() {
				st = append(st, k)
			}
		}
		if len(st) > 30 {
			st = st[:30]
		}
		if m.ForceUngraded[h] || (nOPR > 0 && nOPR < 10 && !m.ForceGraded[h]) {
			st = nil // an ungraded block has too few records of either kind
		}
		if len(st) > 0 && (m.ForceGraded[h] || m.rng.Float64() > 0.05) {
			spec.SPR = m.W.StdSPRs(h, st, m.W.Prices)
		}
	}

	// --- FCT burns (count only before 2.0; forged also after, where they must be ignored)
	if m.rng.Float64() < m.O.BurnProb {
		nb := 1 + m.rng.Intn(3)
		for i := 0; i < nb; i++ {
			k := m.Users[m.rng.Intn(len(m.Users))]
			amt := uint64(1+m.rng.Intn(500)) * 1e8
			spec.FTxs = append(spec.FTxs, forge.BurnTx(k.FA(), amt, m.W.Time(h).Unix()*1000+int64(i), node.BurnRCD))
		}
		// a near miss: burn with a non-zero EC amount
		if m.rng.Intn(4) == 0 {
			k := m.Users[m.rng.Intn(len(m.Users))]
			t := forge.BurnTx(k.FA(), 77e8, m.W.Time(h).Unix()*1000+50, node.BurnRCD)
			t.ECOuts[0].Amount = 1
			spec.FTxs = append(spec.FTxs, t)
		}
	}

	// --- transactions
	if h >= e.TxConv {
		holders := m.sortedHolders(v.Balances)
		n := m.O.TxPerBlock/2 + m.rng.Intn(m.O.TxPerBlock+1)
		for i := 0; i < n && len(holders) > 0; i++ {
			a := holders[m.rng.Intn(len(holders))]
			k := m.byAddr[a]
			if k.IsEth() && h <= e.RCDE+1 && m.rng.Intn(4) != 0 {
				continue // mostly skip RCD-e keys before they are accepted (sometimes post anyway: must be inert)
			}
			ntx := 1
			if m.rng.Float64() < m.O.MultiTxProb {
				ntx = 2 + m.rng.Intn(3)
			}
			var txs []forge.Tx
			hasPegReq := false
			for j := 0; j < ntx; j++ {
				tx, ok := m.randomTx(v, a, h)
				if !ok {
					continue
				}
				if m.O.AvoidKnown && h+10 >= e.ConversionLimit && h < e.V20 && tx.IsConversion() && tx.Conv == fat2.PTickerPEG {
					// (from 10 blocks before the bank era: a batch held across unrated blocks executes later than h+1)
					hasPegReq = true
					txs = []forge.Tx{tx} // bank-era PEG requests travel alone (mixed batches hit recorded findings)
					break
				}
				txs = append(txs, tx)
			}
			_ = hasPegReq
			if len(txs) == 0 {
				continue
			}
			ent := forge.SignedBatch(txs, m.W.EntryTime(h), k)
			spec.Tx = append(spec.Tx, ent)
			m.logf("h=%d %s", h, ent.Note)
		}
	}
	for _, f := range m.At[h] {
		f(v, &spec)
	}
	if m.ForceEmpty[h] {
		spec.OPR, spec.SPR, spec.Tx, spec.FTxs = nil, nil, nil, nil
	}
	return spec
}

// Schedule registers a scripted addition for a height.
func (m *Mixed) Schedule(h uint32, f func(v *View, spec *forge.BlockSpec)) {
	m.At[h] = append(m.At[h], f)
}

func (m *Mixed) randomTx(v *View, a factom.FAAddress, h uint32) (forge.Tx, bool) {
	e := m.W.Eras
	held := heldAssets(v.Balances[a])
	if len(held) == 0 {
		return forge.Tx{}, false
	}
	asset := held[m.rng.Intn(len(held))]
	bal := v.Balances.Get(a, asset)
	var amt uint64
	switch x := m.rng.Float64(); {
	case x < m.O.OverdrawProb:
		amt = bal + 1 + uint64(m.rng.Intn(1000))
	case x < m.O.OverdrawProb+0.1:
		amt = bal
	case x < m.O.OverdrawProb+0.15:
		amt = 1
	default:
		amt = 1 + uint64(m.rng.Int63n(int64(bal/2+1)))
	}
	if m.rng.Intn(2) == 0 {
		// transfer to 1..3 recipients
		nout := 1 + m.rng.Intn(3)
		var outs []forge.Out
		rest := amt
		for i := 0; i < nout; i++ {
			to := m.Actors[m.rng.Intn(len(m.Actors))].FA()
			part := rest
			if i < nout-1 {
				part = uint64(m.rng.Int63n(int64(rest + 1)))
			}
			rest -= part
			outs = append(outs, forge.Out{Addr: to, Amount: part})
		}
		return forge.Tx{From: a, Asset: asset, Amount: amt, To: outs}, true
	}
	// conversion
	cands := AssetsAt(e, h)
	var dst fat2.PTicker
	for tries := 0; tries < 20; tries++ {
		dst = cands[m.rng.Intn(len(cands))]
		if dst == asset {
			continue
		}
		if m.rng.Float64() >= m.O.ForbiddenProb {
			// stay on destinations that are open at (roughly) the execution height
			x := h + 1
			if (dst == fat2.PTickerFCT && x >= e.OneWaypFCT) || (dst == fat2.PTickerPEG && x >= e.V20) ||
				((IsSmallCap(dst) || dst == fat2.PTickerPEG) && x >= e.OneWaySmall) {
				continue
			}
		}
		break
	}
	if dst == asset || dst == fat2.PTickerInvalid {
		return forge.Tx{}, false
	}
	if m.O.AvoidKnown {
		// keep products far from int64 overflow (overflowing conversions are a recorded finding)
		if amt > 1<<40 {
			amt = 1 << 40
		}
	}
	return forge.Conversion(a, asset, amt, dst), true
}

// TopPEG returns the addresses with the largest PEG balance, at most n, ties broken by address
// (callers that care about rank-n ties must avoid them).
func TopPEG(b harness.Balances, n int) []factom.FAAddress {
	type ab struct {
		a factom.FAAddress
		v uint64
	}
	var l []ab
	for a, m := range b {
		if m[fat2.PTickerPEG] > 0 {
			l = append(l, ab{a, m[fat2.PTickerPEG]})
		}
	}
	sort.Slice(l, func(i, j int) bool {
		if l[i].v != l[j].v {
			return l[i].v > l[j].v
		}
		return string(l[i].a[:]) < string(l[j].a[:])
	})
	if len(l) > n {
		l = l[:n]
	}
	out := make([]factom.FAAddress, len(l))
	for i := range l {
		out[i] = l[i].a
	}
	return out
}
