package gen

import (
	"encoding/json"
	"fmt"
	"math/rand"
	"strings"

	"github.com/Factom-Asset-Tokens/factom"
	"github.com/pegnet/pegnetd/config"
	"github.com/pegnet/pegnetd/fat/fat2"
	"verif/lab/forge"
)

// Hostile adds third-party-writable garbage and adversarial entries to blocks.
type Hostile struct {
	M     *Mixed
	rng   *rand.Rand
	pool  []forge.Entry // earlier transaction-chain entries (for replays)
	poolH []uint32
	Kinds []string
	// Tagged kinds are only used when explicitly enabled: they reproduce recorded findings.
	Tagged map[string]bool
}

// HostileKinds is the default rotation (one kind per block).
var HostileKinds = []string{
	"spr-short-extids", "spr-garbage", "opr-garbage", "tx-garbage", "tx-dup-same-block", "tx-dup-later", "tx-dup-conversion-same-block",
	"tx-dup-conversion-later", "tx-truncated", "tx-bitflip", "tx-hostile-numbers", "tx-100", "opr-bad-address", "opr-wrong-version",
	"opr-dup", "opr-zero-asset", "spr-nonholder", "spr-dup", "spr-wrong-version", "cross-chain", "tx-zero-self-burn", "tx-unknown-json",
	"tx-empty-extids", "opr-few", "spr-bad-content", "tx-overflow-conversion", "tx-many-outputs", "spr-bad-sig", "opr-lying-difficulty",
	"tx-big-content", "spr-empty-staker", "tx-missing-type-length-collision", "tx-later-conversion-unconvertible", "spr-prices-far-from-opr", "tx-hostile-strings",
}

// TaggedHostileKinds reproduce recorded legacy-era findings (DESIGN.md §7).
var TaggedHostileKinds = []string{"bank-mixed-batch-transfer", "bank-mixed-batch-conversion", "bank-mid-batch-overdraw"}

func NewHostile(m *Mixed, seed int64) *Hostile {
	return &Hostile{M: m, rng: rand.New(rand.NewSource(seed ^ 0x4057)), Kinds: HostileKinds, Tagged: map[string]bool{}}
}

func (x *Hostile) randBytes(n int) []byte {
	b := make([]byte, n)
	x.rng.Read(b)
	return b
}

func (x *Hostile) garbage(chain factom.Bytes32) forge.Entry {
	n := x.rng.Intn(7)
	var ext [][]byte
	for i := 0; i < n; i++ {
		sz := []int{0, 1, 8, 32, 33, 64, 96, 300}[x.rng.Intn(8)]
		ext = append(ext, x.randBytes(sz))
	}
	csz := []int{0, 1, 50, 500, 10000}[x.rng.Intn(5)]
	if room := forge.MaxEntryBody - forge.BodySize(ext, nil); csz > room {
		csz = room
	}
	return forge.NewEntry(chain, ext, x.randBytes(csz))
}

func (x *Hostile) anyFunded(v *View) (forge.Key, fat2.PTicker, uint64, bool) {
	holders := x.M.sortedHolders(v.Balances)
	for tries := 0; tries < 10 && len(holders) > 0; tries++ {
		a := holders[x.rng.Intn(len(holders))]
		k := x.M.byAddr[a]
		if k.IsEth() {
			continue
		}
		held := heldAssets(v.Balances[a])
		if len(held) == 0 {
			continue
		}
		t := held[x.rng.Intn(len(held))]
		return k, t, v.Balances.Get(a, t), true
	}
	return forge.Key{}, 0, 0, false
}

// Remember stores this block's transaction entries for later replays.
func (x *Hostile) Remember(h uint32, ents []forge.Entry) {
	for _, e := range ents {
		if len(x.pool) < 4000 {
			x.pool = append(x.pool, e)
			x.poolH = append(x.poolH, h)
		}
	}
}

// Apply adds hostile entries of one kind to the block. It returns the kind and a description.
func (x *Hostile) Apply(kind string, v *View, s *forge.BlockSpec) string {
	h := s.Height
	e := x.M.W.Eras
	w := x.M.W
	salt := w.EntryTime(h)
	desc := kind
	signedRaw := func(content []byte, k forge.Key) forge.Entry {
		return forge.SignContent(config.TransactionChain, content, salt, k)
	}
	switch kind {
	case "spr-short-extids":
		n := x.rng.Intn(2) // 0 or 1 ext ids
		var ext [][]byte
		if n == 1 {
			ext = [][]byte{{7}}
		}
		s.SPR = append(s.SPR, forge.NewEntry(config.SPRChain, ext, x.randBytes(20)))
		desc = fmt.Sprintf("SPR-chain entry with %d ExtIDs", n)
	case "spr-empty-staker":
		s.SPR = append(s.SPR, forge.NewEntry(config.SPRChain, [][]byte{{7}, {}, {}}, x.randBytes(20)))
		s.SPR = append(s.SPR, forge.NewEntry(config.SPRChain, [][]byte{{7}, x.randBytes(31)}, nil))
	case "spr-garbage":
		for i := 0; i < 3; i++ {
			g := x.garbage(config.SPRChain)
			if len(g.ExtIDs()) < 2 {
				continue // that shape is its own kind
			}
			s.SPR = append(s.SPR, g)
		}
	case "opr-garbage":
		for i := 0; i < 3; i++ {
			s.OPR = append(s.OPR, x.garbage(config.OPRChain))
		}
	case "tx-garbage":
		for i := 0; i < 3; i++ {
			s.Tx = append(s.Tx, x.garbage(config.TransactionChain))
		}
	case "tx-dup-same-block", "tx-dup-conversion-same-block":
		// a fresh valid entry posted twice (or thrice) in this block
		k, t, bal, ok := x.anyFunded(v)
		if !ok || h < e.TxConv {
			return ""
		}
		var tx forge.Tx
		if kind == "tx-dup-same-block" {
			tx = forge.Transfer(k.FA(), t, bal/3+1, x.M.Actors[x.rng.Intn(len(x.M.Actors))].FA())
		} else {
			dst := fat2.PTickerUSD
			if t == dst {
				dst = fat2.PTickerEUR
			}
			tx = forge.Conversion(k.FA(), t, bal/3+1, dst)
		}
		ent := forge.SignedBatch([]forge.Tx{tx}, salt, k)
		n := 2 + x.rng.Intn(2)
		for i := 0; i < n; i++ {
			s.Tx = append(s.Tx, ent)
		}
		desc = fmt.Sprintf("%s ×%d: %s", kind, n, ent.Note)
	case "tx-dup-later", "tx-dup-conversion-later":
		if len(x.pool) == 0 {
			return ""
		}
		// repeat up to 3 earlier entries (executed, rejected or still pending – whatever they are by now)
		n := 1 + x.rng.Intn(3)
		for i := 0; i < n; i++ {
			j := x.rng.Intn(len(x.pool))
			if kind == "tx-dup-conversion-later" {
				// prefer recent ones: likely still pending when the previous block had no rates
				j = len(x.pool) - 1 - x.rng.Intn(min(len(x.pool), 12))
			}
			s.Tx = append(s.Tx, x.pool[j])
			desc += fmt.Sprintf(" [repeat of entry from height %d]", x.poolH[j])
		}
	case "tx-truncated", "tx-bitflip", "tx-empty-extids":
		k, t, bal, ok := x.anyFunded(v)
		if !ok {
			return ""
		}
		ent := forge.SignedBatch([]forge.Tx{forge.Transfer(k.FA(), t, bal/4+1, x.M.Actors[0].FA())}, salt, k)
		en := ent.Parse()
		ext := ent.ExtIDs()
		content := append([]byte{}, en.Content...)
		switch kind {
		case "tx-truncated":
			content = content[:x.rng.Intn(len(content))]
		case "tx-bitflip":
			content[x.rng.Intn(len(content))] ^= 1 << uint(x.rng.Intn(8))
		case "tx-empty-extids":
			ext = ext[:x.rng.Intn(3)]
		}
		s.Tx = append(s.Tx, forge.NewEntry(config.TransactionChain, ext, content))
	case "tx-hostile-numbers", "tx-unknown-json":
		k, t, _, ok := x.anyFunded(v)
		if !ok {
			return ""
		}
		a := k.FA().String()
		to := x.M.Actors[1].FA().String()
		tn := t.String()
		var docs []string
		if kind == "tx-hostile-numbers" {
			for _, amt := range []string{"9223372036854775807", "9223372036854775808", "18446744073709551615", "18446744073709551616", "0", "-1", "1e3", "1.5", "00"} {
				docs = append(docs, fmt.Sprintf(`{"version":1,"transactions":[{"input":{"address":"%s","amount":%s,"type":"%s"},"transfers":[{"address":"%s","amount":%s}]}]}`, a, amt, tn, to, amt))
				docs = append(docs, fmt.Sprintf(`{"version":1,"transactions":[{"input":{"address":"%s","amount":%s,"type":"%s"},"conversion":"pXBT"}]}`, a, amt, tn))
			}
		} else {
			docs = []string{
				fmt.Sprintf(`{"version":1,"transactions":[{"input":{"address":"%s","amount":1,"type":"%s"},"transfers":[{"address":"%s","amount":1}]}],"extra":1}`, a, tn, to),
				fmt.Sprintf(`{"version":1,"version":1,"transactions":[{"input":{"address":"%s","amount":1,"type":"%s"},"transfers":[{"address":"%s","amount":1}]}]}`, a, tn, to),
				fmt.Sprintf(`{"version":2,"transactions":[{"input":{"address":"%s","amount":1,"type":"%s"},"transfers":[{"address":"%s","amount":1}]}]}`, a, tn, to),
				fmt.Sprintf(`{"version":1,"transactions":[{"input":{"address":"%s","amount":1,"type":"pNOPE"},"transfers":[{"address":"%s","amount":1}]}]}`, a, to),
				fmt.Sprintf(`{"version":1,"transactions":[{"input":{"address":"%s","amount":1,"type":"%s"},"conversion":"pNOPE"}]}`, a, tn),
				fmt.Sprintf(`{"version":1,"transactions":[{"input":{"address":"%s","amount":1,"type":"%s"},"conversion":"%s"}]}`, a, tn, tn),
				fmt.Sprintf(`{"version":1,"transactions":[{"input":{"address":"%s","amount":1,"type":"%s"},"transfers":[{"address":"%s","amount":1}],"conversion":"pUSD"}]}`, a, tn, to),
				fmt.Sprintf(`{"version":1,"transactions":[{"input":{"address":"%s","amount":1,"type":"%s"}}]}`, a, tn),
				`{"version":1,"transactions":[]}`, `[]`, `null`, `{}`, `{"version":1,"transactions":null}`,
				fmt.Sprintf(`{"version":1,"transactions":[{"input":{"address":"%s","amount":2,"type":"%s"},"transfers":[{"address":"%s","amount":1}]}]}`, a, tn, to),
				fmt.Sprintf(`{"version":1,"transactions":[{"input":{"address":"%s","amount":1,"type":"%s"},"transfers":[{"address":"%s","amount":2}]}]}`, a, tn, to),
				fmt.Sprintf(`{"version":1,"transactions":[{"input":{"address":"%s","amount":1,"type":"%s"},"transfers":[{"address":"%s","amount":1}]},{"input":{"address":"%s","amount":1,"type":"%s"},"transfers":[{"address":"%s","amount":1}]}]}`, a, tn, to, to, tn, a),
				fmt.Sprintf(`{"version":1,"transactions":[{"input":{"address":"FA1zT4aFpEvcnPqPCigB3fvGu4Q4mTXY22iiuV69DqE1pNhdF2MC","amount":1,"type":"%s"},"transfers":[{"address":"%s","amount":1}]}]}`, tn, to),
			}
		}
		for _, d := range docs {
			s.Tx = append(s.Tx, signedRaw([]byte(d), k))
		}
	case "tx-100", "tx-many-outputs":
		k, t, bal, ok := x.anyFunded(v)
		if !ok {
			return ""
		}
		var txs []forge.Tx
		if kind == "tx-100" {
			// as many transactions as fit into a 10 KiB Factom entry
			for i := 0; i < 100; i++ {
				txs = append(txs, forge.Transfer(k.FA(), t, bal/200+1, x.M.Actors[i%len(x.M.Actors)].FA()))
			}
		} else {
			var outs []forge.Out
			var tot uint64
			for i := 0; i < 150; i++ {
				outs = append(outs, forge.Out{Addr: x.M.Actors[i%len(x.M.Actors)].FA(), Amount: bal / 300})
				tot += bal / 300
			}
			txs = []forge.Tx{{From: k.FA(), Asset: t, Amount: tot, To: outs}}
		}
		for forge.BodySize(nil, forge.BatchContent(txs)) > forge.MaxEntryBody-150 {
			if len(txs) > 1 {
				txs = txs[:len(txs)-1]
			} else {
				txs[0].To = txs[0].To[:len(txs[0].To)-1]
				var tot uint64
				for _, o := range txs[0].To {
					tot += o.Amount
				}
				txs[0].Amount = tot
			}
		}
		s.Tx = append(s.Tx, forge.SignedBatch(txs, salt, k))
	case "tx-missing-type-length-collision":
		// an input object without a "type" member whose other members make up exactly the length the
		// reader expects for the error string of an invalid ticker; amounts of 0 pass every funds check
		k, _, _, ok := x.anyFunded(v)
		if !ok {
			return ""
		}
		a := k.FA().String()
		to := x.M.Actors[1].FA().String()
		for _, amt := range []string{"0", "7"} {
			pad := strings.Repeat("x", 20-len(amt))
			s.Tx = append(s.Tx, signedRaw([]byte(fmt.Sprintf(`{"version":1,"transactions":[{"input":{"address":"%s","amount":%s,"typ":"%s"},"transfers":[{"address":"%s","amount":%s}]}]}`, a, amt, pad, to, amt)), k))
			s.Tx = append(s.Tx, signedRaw([]byte(fmt.Sprintf(`{"version":1,"transactions":[{"input":{"address":"%s","amount":%s,"typ":"%s"},"conversion":"pUSD"}]}`, a, amt, pad)), k))
		}
	case "tx-big-content":
		k, _, _, ok := x.anyFunded(v)
		if !ok {
			return ""
		}
		pad := make([]byte, 9500)
		for i := range pad {
			pad[i] = ' '
		}
		doc := append([]byte(`{"version":1,`), pad...)
		doc = append(doc, []byte(`"transactions":[]}`)...)
		s.Tx = append(s.Tx, signedRaw(doc, k))
	case "spr-prices-far-from-opr":
		// from 2.0 on: the stakers' records price everything at twice what the miners report. Whatever the
		// tolerance rule of the height makes of it (rates of some assets zeroed, or no rates at all for the
		// block), the block must be applied.
		if h < e.V20 || len(s.SPR) < 25 || len(s.OPR) < 25 {
			return ""
		}
		sp := map[string]uint64{}
		for k2, x2 := range w.Prices {
			sp[k2] = x2 * 2
		}
		var st []forge.Key
		for _, a := range TopPEG(v.Balances, 100) {
			if k2, ok := x.M.byAddr[a]; ok && !k2.IsEth() {
				st = append(st, k2)
			}
		}
		if len(st) > 30 {
			st = st[:30]
		}
		if len(st) < 25 {
			return ""
		}
		s.SPR = w.StdSPRs(h, st, sp)
		desc = "winning staking records price every asset at twice the winning mining record"
	case "tx-hostile-strings":
		// otherwise well-formed batches whose ticker / address strings are degenerate: a lone quote, quotes only,
		// backslashes, control characters, very long, empty - as input type, as conversion target, as address
		k, _, _, ok := x.anyFunded(v)
		if !ok {
			k = x.M.Actors[0]
		}
		a := k.FA().String()
		to := x.M.Actors[1].FA().String()
		weird := []string{`\"`, `\"\"`, `\\`, ``, ` `, `\u0000`, `\"PEG`, `PEG\"`, `p`, `\n`, strings.Repeat("p", 300), `pUSD\u0000`, `\ud800`}
		for i, wv := range weird {
			var d string
			switch i % 3 {
			case 0:
				d = fmt.Sprintf(`{"version":1,"transactions":[{"input":{"address":"%s","amount":1,"type":"%s"},"transfers":[{"address":"%s","amount":1}]}]}`, a, wv, to)
			case 1:
				d = fmt.Sprintf(`{"version":1,"transactions":[{"input":{"address":"%s","amount":1,"type":"pUSD"},"conversion":"%s"}]}`, a, wv)
			default:
				d = fmt.Sprintf(`{"version":1,"transactions":[{"input":{"address":"%s","amount":1,"type":"pUSD"},"transfers":[{"address":"%s","amount":1}]}]}`, a, wv)
			}
			s.Tx = append(s.Tx, signedRaw([]byte(d), k))
			// and the same string in the other two places
			s.Tx = append(s.Tx, signedRaw([]byte(fmt.Sprintf(`{"version":1,"transactions":[{"input":{"address":"%s","amount":1,"type":"%s"},"conversion":"%s"}]}`, a, wv, wv)), k))
		}
		desc = "batches with degenerate ticker / address strings (lone quote, backslashes, control characters, 300 characters, empty)"
	case "tx-later-conversion-unconvertible":
		// a funded batch whose FIRST conversion is fine and whose second (or third) one goes into an asset
		// that has no rate (yet), or into a destination closed at this height: the batch is refused as a
		// whole; whatever check finds it, the block must still be applied
		k, t, bal, ok := x.anyFunded(v)
		if !ok || bal < 1000 {
			return ""
		}
		have := map[fat2.PTicker]bool{}
		for _, a := range AssetsAt(e, h+1) {
			have[a] = true
		}
		var unrated []fat2.PTicker
		for a := fat2.PTickerInvalid + 1; a < fat2.PTickerMax; a++ {
			if !have[a] && a != t {
				unrated = append(unrated, a)
			}
		}
		bad := fat2.PTickerFCT // one-way from OneWaypFCT on; before that simply another conversion
		if len(unrated) > 0 {
			bad = unrated[x.rng.Intn(len(unrated))]
		}
		good := fat2.PTickerEUR
		if t == good {
			good = fat2.PTickerJPY
		}
		txs := []forge.Tx{forge.Conversion(k.FA(), t, bal/10, good), forge.Conversion(k.FA(), t, bal/10, bad)}
		if x.rng.Intn(2) == 0 {
			txs = append(txs, forge.Conversion(k.FA(), t, bal/10, fat2.PTickerPEG))
		}
		s.Tx = append(s.Tx, forge.SignedBatch(txs, salt, k))
		desc = fmt.Sprintf("batch of %d conversions, the later ones into %s / PEG", len(txs), bad)
	case "tx-overflow-conversion":
		return "" // generated by the C17 tagged scenario; needs a huge balance to be meaningful
	case "tx-zero-self-burn":
		k, t, bal, ok := x.anyFunded(v)
		if !ok {
			return ""
		}
		burn, _ := factom.NewFAAddress("FA2BURNBABYBURNoooooooooooooooooooooooooooooooDGvNXy")
		old, _ := factom.NewFAAddress("FA1y5ZGuHSLmf2TqNf6hVMkPiNGyQpQDTFJvDLRkKQaoPo4bmbgu")
		s.Tx = append(s.Tx, forge.SignedBatch([]forge.Tx{forge.Transfer(k.FA(), t, 0, x.M.Actors[2].FA())}, salt, k))
		s.Tx = append(s.Tx, forge.SignedBatch([]forge.Tx{forge.Transfer(k.FA(), t, bal/5+1, k.FA())}, salt+1, k))
		s.Tx = append(s.Tx, forge.SignedBatch([]forge.Tx{forge.Transfer(k.FA(), t, bal/7+1, burn)}, salt+2, k))
		s.Tx = append(s.Tx, forge.SignedBatch([]forge.Tx{forge.Transfer(k.FA(), t, bal/9+1, old)}, salt+3, k))
		s.Tx = append(s.Tx, forge.SignedBatch([]forge.Tx{forge.Conversion(k.FA(), t, 0, fat2.PTickerXBT)}, salt+4, k))
	case "opr-bad-address":
		ver := e.OPRVersion(h)
		for i, addr := range []string{"", "FA1zT4aFpEvcnPqPCigB3fvGu4Q4mTXY22iiuV69DqE1pNhdF2MD", "not an address", "EC2BURNFCT2PEGNETooo1oooo1oooo1oooo1oooo1oooo19wthin"} {
			s.OPR = append(s.OPR, w.OPR(h, ver, 200+i, w.Prices, addr))
		}
	case "opr-wrong-version":
		ver := e.OPRVersion(h)
		for _, dv := range []int{-1, 1} {
			v2 := int(ver) + dv
			if v2 < 1 || v2 > 5 {
				continue
			}
			for i := 0; i < 26; i++ {
				s.OPR = append(s.OPR, w.OPR(h, uint8(v2), 300+i, w.Prices, w.Miners[i%len(w.Miners)].FA().String()))
			}
		}
	case "opr-dup":
		if len(s.OPR) > 0 {
			s.OPR = append(s.OPR, s.OPR[0], s.OPR[0], s.OPR[len(s.OPR)-1])
		}
	case "opr-zero-asset":
		ver := e.OPRVersion(h)
		p := map[string]uint64{}
		for k2, v2 := range w.Prices {
			p[k2] = v2
		}
		p["XBT"] = 0
		s.OPR = append(s.OPR, w.OPR(h, ver, 400, p, w.Miners[0].FA().String()))
		p["XBT"] = ^uint64(0)
		s.OPR = append(s.OPR, w.OPR(h, ver, 401, p, w.Miners[0].FA().String()))
	case "opr-few":
		if len(s.OPR) > 5 {
			s.OPR = s.OPR[:1+x.rng.Intn(5)]
		}
	case "opr-lying-difficulty":
		ver := e.OPRVersion(h)
		d := ^uint64(0)
		s.OPR = append(s.OPR, forge.MakeOPR(forge.OPRParams{Version: ver, Height: h, PrevWinners: w.PrevWinners, Address: w.Miners[0].FA().String(),
			ID: "liar", Assets: forge.PriceVector(ver, w.Prices), Nonce: []byte{9, 9}, Difficulty: &d}))
	case "spr-nonholder":
		for i := 0; i < 26; i++ {
			k := forge.NewKey(fmt.Sprintf("nonholder-%d", i))
			s.SPR = append(s.SPR, w.StdSPRs(h, []forge.Key{k}, w.Prices)...)
		}
	case "spr-dup":
		if len(s.SPR) > 0 {
			s.SPR = append(s.SPR, s.SPR[0], s.SPR[0])
		}
	case "spr-wrong-version":
		ver := e.SPRVersion(h)
		for _, v2 := range []uint8{ver - 1, ver + 1, 0, 255} {
			for i := 0; i < 3 && i < len(w.Miners); i++ {
				k := w.Miners[i]
				s.SPR = append(s.SPR, forge.MakeSPR(forge.SPRParams{Version: ver, ExtVersion: &v2, Height: h, Staker: k.FA(), Signer: k, Payout: k.FA().String(), Assets: forge.PriceVector(5, w.Prices)}))
			}
		}
	case "spr-bad-content", "spr-bad-sig":
		for i := 0; i < 3 && i < len(w.Miners); i++ {
			k := w.Miners[i]
			p := forge.SPRParams{Version: e.SPRVersion(h), Height: h, Staker: k.FA(), Signer: k, Payout: k.FA().String(), Assets: forge.PriceVector(5, w.Prices)}
			if kind == "spr-bad-sig" {
				p.BadSig = true
			} else {
				p.RawContent = x.randBytes(1 + x.rng.Intn(200))
			}
			s.SPR = append(s.SPR, forge.MakeSPR(p))
		}
	case "cross-chain":
		if len(s.Tx) > 0 {
			en := s.Tx[0].Parse()
			s.OPR = append(s.OPR, forge.NewEntry(config.OPRChain, s.Tx[0].ExtIDs(), en.Content))
			s.SPR = append(s.SPR, forge.NewEntry(config.SPRChain, s.Tx[0].ExtIDs(), en.Content))
		}
		if len(s.OPR) > 0 {
			en := s.OPR[0].Parse()
			s.Tx = append(s.Tx, forge.NewEntry(config.TransactionChain, s.OPR[0].ExtIDs(), en.Content))
			s.SPR = append(s.SPR, forge.NewEntry(config.SPRChain, s.OPR[0].ExtIDs(), en.Content))
		}
	case "bank-mixed-batch-transfer", "bank-mixed-batch-conversion":
		// tagged: a bank-era batch mixing a PEG request with another transaction
		if !(h+1 >= e.ConversionLimit && h+2 < e.V20) {
			return ""
		}
		k, t, bal, ok := x.anyFunded(v)
		if !ok || t == fat2.PTickerPEG || bal < 10 {
			return ""
		}
		other := forge.Transfer(k.FA(), t, 1, x.M.Actors[0].FA())
		if kind == "bank-mixed-batch-conversion" {
			dst := fat2.PTickerUSD
			if t == dst {
				dst = fat2.PTickerEUR
			}
			other = forge.Conversion(k.FA(), t, 2, dst)
		}
		s.Tx = append(s.Tx, forge.SignedBatch([]forge.Tx{forge.Conversion(k.FA(), t, bal/4+1, fat2.PTickerPEG), other}, salt, k))
	case "bank-mid-batch-overdraw":
		// tagged: [spend 60 % of the PEG, convert something into PEG, spend another 60 % of the PEG]: the funds
		// simulation credits the PEG request at once, the ledger defers it to the bank payout
		if !(h+1 >= e.ConversionLimit && h+2 < e.V20) {
			return ""
		}
		holders := x.M.sortedHolders(v.Balances)
		for _, a := range holders {
			k := x.M.byAddr[a]
			peg := v.Balances.Get(a, fat2.PTickerPEG)
			fct := v.Balances.Get(a, fat2.PTickerFCT)
			usd := v.Balances.Get(a, fat2.PTickerUSD)
			src, amt := fat2.PTickerFCT, fct
			if usd > fct {
				src, amt = fat2.PTickerUSD, usd
			}
			pr, sr := v.LastRates[fat2.PTickerPEG], v.LastRates[src]
			isMiner := false
			for _, mk := range x.M.W.Miners {
				if mk.FA() == a {
					isMiner = true // miners' PEG grows by a reward between submission and execution
				}
			}
			if isMiner || k.IsEth() || peg < 1000 || amt == 0 || pr == 0 || sr == 0 {
				continue
			}
			// the converted PEG must cover the gap of 20 % of the PEG balance
			need := peg / 4
			if amt/pr*sr < need && amt*sr/pr < need {
				continue
			}
			b := peg * 6 / 10
			s.Tx = append(s.Tx, forge.SignedBatch([]forge.Tx{
				forge.Transfer(a, fat2.PTickerPEG, b, x.M.Actors[0].FA()),
				forge.Conversion(a, src, amt, fat2.PTickerPEG),
				forge.Transfer(a, fat2.PTickerPEG, b, x.M.Actors[1].FA()),
			}, salt, k))
			return desc
		}
		return ""
	default:
		return ""
	}
	return desc
}

func min(a, b int) int {
	if a < b {
		return a
	}
	return b
}

// DescribeJSON is a helper for evidence samples.
func DescribeJSON(v interface{}) string {
	b, _ := json.Marshal(v)
	return string(b)
}
