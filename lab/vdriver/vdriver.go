// Package vdriver registers "sqlite3_verif": a database/sql driver that wraps
// mattn's SQLite driver and observes every statement at the database
// boundary. It can log statements, fail one, delay one, or kill the process
// before/after one. It changes nothing else: every call is delegated.
package vdriver

import (
	"context"
	"database/sql"
	"database/sql/driver"
	"errors"
	"os"
	"runtime"
	"strings"
	"sync"
	"sync/atomic"
	"syscall"
	"time"

	sqlite3 "github.com/mattn/go-sqlite3"
)

// Kind of a database boundary event.
type Kind int

const (
	KExec Kind = iota
	KQuery
	KBegin
	KCommit
	KRollback
)

func (k Kind) String() string {
	return [...]string{"exec", "query", "begin", "commit", "rollback"}[k]
}

// Event is one statement at the database boundary.
type Event struct {
	Seq   int64
	Conn  int64
	Kind  Kind
	SQL   string
	Args  []driver.Value
	InTx  bool   // connection has an open transaction started through this driver
	Site  string // outermost pegnetd frame that issued it (when call-site capture is on)
	T0    int64  // monotonic ns
	T1    int64
	Err   string
	Block uint32 // filled by the harness: height being applied when it happened
}

// Action tells the driver what to do with a statement.
type Action int

const (
	Proceed      Action = iota
	FailInstead         // return ErrInjected without executing
	KillBefore          // SIGKILL the process before executing
	KillAfter           // execute, then SIGKILL
	DelayProceed        // sleep Delay, then execute
)

// ErrInjected is returned for a statement failed by injection. It is a plain
// error, like a transient SQLITE_IOERR/BUSY would be at this boundary.
var ErrInjected = errors.New("verif: injected transient database error")

// Hooks configure the process-wide wrapper.
type Hooks struct {
	// Decide is called for every event before it executes (under no lock).
	Decide func(ev *Event) (Action, time.Duration)
	// Record is called after the statement finished.
	Record func(ev *Event)
	// CaptureSite enables runtime.Callers based call-site attribution.
	CaptureSite bool
}

var (
	hooks   atomic.Value // *Hooks
	seq     int64
	connSeq int64
	base    = time.Now()
)

func now() int64 { return int64(time.Since(base)) }

// Set installs hooks (nil removes them).
func Set(h *Hooks) {
	if h == nil {
		h = &Hooks{}
	}
	hooks.Store(h)
}

func get() *Hooks {
	if v := hooks.Load(); v != nil {
		return v.(*Hooks)
	}
	return &Hooks{}
}

// Seq returns the number of events seen so far.
func Seq() int64 { return atomic.LoadInt64(&seq) }

func init() {
	sql.Register("sqlite3_verif", &drv{inner: &sqlite3.SQLiteDriver{}})
}

type drv struct{ inner *sqlite3.SQLiteDriver }

func (d *drv) Open(dsn string) (driver.Conn, error) {
	c, err := d.inner.Open(dsn)
	if err != nil {
		return nil, err
	}
	return &conn{inner: c.(*sqlite3.SQLiteConn), id: atomic.AddInt64(&connSeq, 1)}, nil
}

type conn struct {
	inner *sqlite3.SQLiteConn
	id    int64
	mu    sync.Mutex
	inTx  bool
}

func site() string {
	pcs := make([]uintptr, 48)
	n := runtime.Callers(3, pcs)
	frames := runtime.CallersFrames(pcs[:n])
	// "innermost<-...": up to three pegnetd frames, innermost first
	var chain []string
	for {
		f, more := frames.Next()
		if strings.Contains(f.Function, "github.com/pegnet/pegnetd/") {
			name := f.Function[strings.LastIndex(f.Function, "/")+1:]
			chain = append(chain, name+":"+itoa(f.Line))
		}
		if !more {
			break
		}
	}
	if len(chain) == 0 {
		return ""
	}
	if len(chain) > 3 {
		chain = chain[:3]
	}
	return strings.Join(chain, "<-")
}

// CallerHas reports whether a function whose name contains substr is on the calling goroutine's stack
// (used by Decide hooks to tell the daemon's API handlers from its sync loop).
func CallerHas(substr string) bool {
	pcs := make([]uintptr, 64)
	n := runtime.Callers(2, pcs)
	frames := runtime.CallersFrames(pcs[:n])
	for {
		f, more := frames.Next()
		if strings.Contains(f.Function, substr) {
			return true
		}
		if !more {
			return false
		}
	}
}

func itoa(i int) string {
	if i == 0 {
		return "0"
	}
	var b [12]byte
	p := len(b)
	for i > 0 {
		p--
		b[p] = byte('0' + i%10)
		i /= 10
	}
	return string(b[p:])
}

func (c *conn) run(kind Kind, q string, args []driver.Value, f func() error) error {
	h := get()
	ev := &Event{Seq: atomic.AddInt64(&seq, 1), Conn: c.id, Kind: kind, SQL: q, Args: args}
	c.mu.Lock()
	ev.InTx = c.inTx
	c.mu.Unlock()
	if h.CaptureSite {
		ev.Site = site()
	}
	act, d := Proceed, time.Duration(0)
	if h.Decide != nil {
		act, d = h.Decide(ev)
	}
	ev.T0 = now()
	var err error
	switch act {
	case FailInstead:
		err = ErrInjected
	case KillBefore:
		kill()
	case DelayProceed:
		time.Sleep(d)
		err = f()
	default:
		err = f()
	}
	ev.T1 = now()
	if err != nil {
		ev.Err = err.Error()
	}
	if err == nil {
		c.mu.Lock()
		switch kind {
		case KBegin:
			c.inTx = true
		case KCommit, KRollback:
			c.inTx = false
		}
		c.mu.Unlock()
	}
	if h.Record != nil {
		h.Record(ev)
	}
	if act == KillAfter {
		kill()
	}
	return err
}

func kill() {
	syscall.Kill(os.Getpid(), syscall.SIGKILL)
	select {} // never returns
}

func named(args []driver.NamedValue) []driver.Value {
	out := make([]driver.Value, len(args))
	for i, a := range args {
		out[i] = a.Value
	}
	return out
}

func (c *conn) Prepare(q string) (driver.Stmt, error) {
	return c.PrepareContext(context.Background(), q)
}

func (c *conn) PrepareContext(ctx context.Context, q string) (driver.Stmt, error) {
	s, err := c.inner.PrepareContext(ctx, q)
	if err != nil {
		return nil, err
	}
	return &stmt{c: c, inner: s.(*sqlite3.SQLiteStmt), q: q}, nil
}

func (c *conn) Close() error { return c.inner.Close() }

func (c *conn) Begin() (driver.Tx, error) { return c.BeginTx(context.Background(), driver.TxOptions{}) }

func (c *conn) BeginTx(ctx context.Context, opts driver.TxOptions) (driver.Tx, error) {
	var t driver.Tx
	err := c.run(KBegin, "BEGIN", nil, func() error {
		var e error
		t, e = c.inner.BeginTx(ctx, opts)
		return e
	})
	if err != nil {
		return nil, err
	}
	return &tx{c: c, inner: t}, nil
}

func (c *conn) Ping(ctx context.Context) error { return c.inner.Ping(ctx) }

func (c *conn) ExecContext(ctx context.Context, q string, args []driver.NamedValue) (driver.Result, error) {
	var r driver.Result
	err := c.run(KExec, q, named(args), func() error {
		var e error
		r, e = c.inner.ExecContext(ctx, q, args)
		return e
	})
	return r, err
}

func (c *conn) QueryContext(ctx context.Context, q string, args []driver.NamedValue) (driver.Rows, error) {
	var r driver.Rows
	err := c.run(KQuery, q, named(args), func() error {
		var e error
		r, e = c.inner.QueryContext(ctx, q, args)
		return e
	})
	return r, err
}

type tx struct {
	c     *conn
	inner driver.Tx
}

func (t *tx) Commit() error {
	return t.c.run(KCommit, "COMMIT", nil, func() error { return t.inner.Commit() })
}

func (t *tx) Rollback() error {
	err := t.c.run(KRollback, "ROLLBACK", nil, func() error { return t.inner.Rollback() })
	if err != nil {
		// a failed (injected) rollback still must not leave the connection in a transaction:
		// roll back for real so the connection can be reused, as SQLite itself would
		// after an I/O error (automatic rollback).
		if errors.Is(err, ErrInjected) {
			_ = t.inner.Rollback()
			t.c.mu.Lock()
			t.c.inTx = false
			t.c.mu.Unlock()
		}
	}
	return err
}

type stmt struct {
	c     *conn
	inner *sqlite3.SQLiteStmt
	q     string
}

func (s *stmt) Close() error  { return s.inner.Close() }
func (s *stmt) NumInput() int { return s.inner.NumInput() }

func (s *stmt) Exec(args []driver.Value) (driver.Result, error) {
	nv := make([]driver.NamedValue, len(args))
	for i, a := range args {
		nv[i] = driver.NamedValue{Ordinal: i + 1, Value: a}
	}
	return s.ExecContext(context.Background(), nv)
}

func (s *stmt) Query(args []driver.Value) (driver.Rows, error) {
	nv := make([]driver.NamedValue, len(args))
	for i, a := range args {
		nv[i] = driver.NamedValue{Ordinal: i + 1, Value: a}
	}
	return s.QueryContext(context.Background(), nv)
}

func (s *stmt) ExecContext(ctx context.Context, args []driver.NamedValue) (driver.Result, error) {
	var r driver.Result
	err := s.c.run(KExec, s.q, named(args), func() error {
		var e error
		r, e = s.inner.ExecContext(ctx, args)
		return e
	})
	return r, err
}

func (s *stmt) QueryContext(ctx context.Context, args []driver.NamedValue) (driver.Rows, error) {
	var r driver.Rows
	err := s.c.run(KQuery, s.q, named(args), func() error {
		var e error
		r, e = s.inner.QueryContext(ctx, args)
		return e
	})
	return r, err
}

// Now is the wrapper's monotonic clock (ns since process start); monitors use the same clock.
func Now() int64 { return now() }
