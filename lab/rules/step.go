package rules

import (
	"crypto/sha256"
	"fmt"
	"math/big"
	"sort"
	"strings"
	"time"

	"github.com/Factom-Asset-Tokens/factom"
	"github.com/pegnet/pegnet/modules/opr"
	"github.com/pegnet/pegnetd/fat/fat2"
	"verif/lab/forge"
)

// Expected is the model's prediction for one block.
type Expected struct {
	Height   uint32
	Bal      Bal
	Events   []Event
	Outcomes []BatchOutcome
	// Rates the block must record (stored names → value); nil = the block records no rates.
	Rates map[string]uint64
	Rated bool
	// Bank row expected for this height (V4 ≤ h < V20, rated): amount, used, requested. nil = none.
	Bank *[3]int64
	// OPRWinners / SPRWinners: entry hashes of paid records with their payout.
	OPRPaid map[string]int64
	SPRPaid map[string]int64
	// Undetermined: addresses whose expectation the model declines to give (rank-100 ties, recorded-finding shapes).
	Undetermined map[factom.FAAddress]string
	Notes        []string
	// AveragesUsed are the averages the model used for conversions executed in this block.
	AveragesUsed map[fat2.PTicker]uint64
	SnapshotPaid map[factom.FAAddress]uint64
	SnapshotRan  bool
	// UnpricedStakes counts (holder, asset) pairs left out of a snapshot valuation because the asset has no rate.
	UnpricedStakes int
	// Impostors: staking records naming a top holder's id but signed by another key (must earn nothing).
	Impostors []string
	// OutOfBand: OPR outside the SPR band before 2.0.2 (the block must simply be unrated).
	OutOfBand bool
	// MixedPegBatch: a bank-era batch mixing a PEG request with other transactions executed in this block (recorded finding shape).
	MixedPegBatch bool
}

func (x *Expected) ev(prop, kind string, a factom.FAAddress, t fat2.PTicker, delta int64, ref string, supply bool) {
	x.Events = append(x.Events, Event{Prop: prop, Kind: kind, Addr: a, Asset: t, Delta: big.NewInt(delta), Ref: ref, Supply: supply})
}

func (x *Expected) evU(prop, kind string, a factom.FAAddress, t fat2.PTicker, amt uint64, neg bool, ref string, supply bool) {
	d := new(big.Int).SetUint64(amt)
	if neg {
		d.Neg(d)
	}
	x.Events = append(x.Events, Event{Prop: prop, Kind: kind, Addr: a, Asset: t, Delta: d, Ref: ref, Supply: supply})
}

// storedName is the name a rate is stored under.
func storedName(asset string) string {
	if asset == "PEG" {
		return "PEG"
	}
	return "p" + asset
}

// band returns whether the OPR value is inside the tolerance band of the SPR value, computed as the
// statement gives it (percentages of the SPR value, inclusive).
func inBand(oprV, sprV uint64, pct float64) bool {
	hi := float64(sprV) * (1 + pct)
	lo := float64(sprV) * (1 - pct)
	return float64(oprV) >= lo && float64(oprV) <= hi
}

// Step predicts the effects of block b on top of the observed previous balances.
// rs must answer for heights < b.Height from the observed database, and for b.Height itself with the
// OBSERVED rates (so that a rate error is reported once, by C12, and does not cascade).
func (m *Model) Step(prev Bal, b *forge.Block, rs RateSource, burnRCD [32]byte) *Expected {
	e := m.E
	h := b.Height
	x := &Expected{Height: h, Bal: prev.Clone(), OPRPaid: map[string]int64{}, SPRPaid: map[string]int64{}, Undetermined: map[factom.FAAddress]string{}, SnapshotPaid: map[factom.FAAddress]uint64{}}
	B := x.Bal
	zero := func(addr factom.FAAddress, prop, kind string, only []fat2.PTicker) {
		B.Touch(addr)
		if only == nil {
			for t := fat2.PTickerInvalid + 1; t < fat2.PTickerMax; t++ {
				only = append(only, t)
			}
		}
		for _, t := range only {
			if v := B.Get(addr, t); v > 0 {
				B.Sub(addr, t, v)
				x.evU(prop, kind, addr, t, v, true, kind, true)
			}
		}
	}
	// ---- one-time adjustments that run before anything else in the block
	if h == e.V20Dev {
		zero(mustFA(GlobalOldBurnAddress), "C15", "nullify-old-burn-address", nil)
	}
	if h == e.V202 {
		zero(mustFA(GlobalBurnAddress), "C15", "nullify-burn-address", nil)
	}
	if h == e.V204 {
		ma := mustFA(GlobalMintAddress)
		for _, mt := range MintTable {
			B.Add(ma, mt.T, mt.N*pegUnit)
			x.evU("C15", "mint", ma, mt.T, mt.N*pegUnit, false, "mint", true)
		}
	}
	if h == e.V204Burn {
		var ts []fat2.PTicker
		for _, mt := range MintTable {
			ts = append(ts, mt.T)
		}
		zero(mustFA(GlobalMintAddress), "C15", "burn-minted", ts)
	}

	// ---- grading
	top, und := TopPEG(prev, 100)
	oprVer := e.OPRVersion(h)
	var oprWin, sprWin []opr.AssetUint
	type paid struct {
		addr   string
		amount int64
		hash   string
	}
	var oprPay, sprPay []paid
	if len(b.OPR) > 0 {
		gb, err := forge.GradeOPR(oprVer, h, m.PrevWinners, b.OPR)
		if err == nil && gb != nil {
			w := gb.Winners()
			if len(w) > 0 {
				oprWin = w[0].OPR.GetOrderedAssetsUint()
				for _, g := range w {
					oprPay = append(oprPay, paid{g.OPR.GetAddress(), g.Payout(), fmt.Sprintf("%x", g.EntryHash)})
				}
			}
			m.PrevWinners = append([]string{}, gb.WinnersShortHashes()...)
		}
	}
	if len(b.SPR) > 0 {
		var eligible []forge.Entry
		for _, en := range b.SPR {
			ext := en.ExtIDs()
			if len(ext) < 2 || len(ext[1]) != 32 {
				continue
			}
			var a factom.FAAddress
			copy(a[:], ext[1])
			if und[a] {
				x.Notes = append(x.Notes, "staker at a rank-100 tie: SPR verdict not judged")
				x.Undetermined[a] = "rank-100 tie"
				eligible = nil
				sprWin = nil
				goto sprDone
			}
			if top[a] {
				// from the signature activation on, the record must be signed by the key of that staker id
				if h >= e.SprSig && len(ext) >= 3 && len(ext[2]) >= 32 {
					rcd := append([]byte{0x01}, ext[2][:32]...)
					h1 := sha256.Sum256(rcd)
					h2 := sha256.Sum256(h1[:])
					if factom.FAAddress(h2) != a {
						x.Impostors = append(x.Impostors, en.Hash.String())
						continue
					}
				}
				eligible = append(eligible, en)
			}
		}
		if gs, err := forge.GradeSPR(e.SPRVersion(h), h, eligible); err == nil && gs != nil {
			w := gs.Winners()
			if len(w) > 0 {
				sprWin = w[0].SPR.GetOrderedAssetsUint()
				for _, g := range w {
					sprPay = append(sprPay, paid{g.SPR.GetAddress(), g.Payout(), fmt.Sprintf("%x", g.EntryHash)})
				}
			}
		}
	}
sprDone:
	// ---- rates of the block
	switch {
	case h < e.V20:
		if len(oprWin) > 0 {
			x.Rated = true
			x.Rates = map[string]uint64{}
			var peg uint64
			for _, a := range oprWin {
				if a.Name == "PEG" {
					peg = a.Value
					continue
				}
				x.Rates[storedName(a.Name)] = a.Value
			}
			switch {
			case h < e.PEGPricing:
				peg = 0
			case h < e.PEGFreeFloat:
				// market-cap equation on the supplies of the previous state
				capTotal := new(big.Int)
				sup := map[fat2.PTicker]*big.Int{}
				for _, mm := range prev {
					for t, v := range mm {
						if sup[t] == nil {
							sup[t] = new(big.Int)
						}
						sup[t].Add(sup[t], new(big.Int).SetUint64(v))
					}
				}
				for _, a := range oprWin {
					if a.Name == "PEG" {
						continue
					}
					t := fat2.StringToTicker(storedName(a.Name))
					if t == fat2.PTickerInvalid || sup[t] == nil {
						continue
					}
					// the daemon sums supplies in uint64 columns
					s64 := new(big.Int).And(sup[t], new(big.Int).SetUint64(^uint64(0)))
					capTotal.Add(capTotal, new(big.Int).Mul(s64, new(big.Int).SetUint64(a.Value)))
				}
				ps := sup[fat2.PTickerPEG]
				if ps == nil || ps.Sign() == 0 {
					peg = 0
				} else {
					q := new(big.Int).Div(capTotal, ps)
					peg = q.Uint64()
				}
			}
			x.Rates["PEG"] = peg
		}
	default:
		if len(oprWin) > 0 || len(sprWin) > 0 {
			var list []opr.AssetUint
			ok := true
			switch {
			case len(oprWin) > 0 && len(sprWin) == 0:
				list = oprWin
			case len(oprWin) == 0 && len(sprWin) > 0:
				list = sprWin
			default:
				for i := range oprWin {
					if i >= len(sprWin) || oprWin[i].Name != sprWin[i].Name {
						continue
					}
					o, s := oprWin[i].Value, sprWin[i].Value
					var pct float64
					switch {
					case h < e.V20Dev:
						pct = 0.01
						if s >= 100000 {
							pct = 0.001
						}
					case h < e.V202:
						pct = 0.1
					default:
						pct = 0.25
					}
					if inBand(o, s, pct) {
						list = append(list, oprWin[i])
					} else if h >= e.V202 {
						z := sprWin[i]
						z.Value = 0
						list = append(list, z)
					} else {
						ok = false
					}
				}
			}
			if ok {
				x.Rated = true
				x.Rates = map[string]uint64{}
				for _, a := range list {
					x.Rates[storedName(a.Name)] = a.Value
				}
				if _, has := x.Rates["PEG"]; !has {
					x.Rates["PEG"] = 0
				}
			} else {
				x.Notes = append(x.Notes, "OPR outside the SPR tolerance band before 2.0.2: the block is unrated; everything else of the block is applied as usual")
				x.OutOfBand = true
			}
		}
	}

	// the rates the rest of the block works with are the OBSERVED ones (see doc comment)
	obs := rs.Rates(h)
	rated := len(obs) > 0

	// ---- transactions
	if h >= e.TxConv {
		// snapshot + holder payouts
		if h >= e.V20 && h%144 == 0 {
			sr := obs
			if len(sr) == 0 && h >= e.V202 {
				if L := rs.LastRatedBefore(h); L != 0 {
					sr = rs.Rates(L)
				}
			}
			// before 2.0.2 a snapshot height without rates borrows the rates of the block before it; when
			// that one has none either, the balances are snapshotted but nobody can be valued or paid
			if len(sr) == 0 && h < e.V202 {
				sr = rs.Rates(h - 1)
			}
			{
				m.SnapPast = m.SnapCur
				m.SnapCur = B.Clone()
				x.SnapshotRan = true
				type st struct {
					a factom.FAAddress
					v uint64
				}
				var list []st
				for a, cur := range m.SnapCur {
					if len(sr) == 0 {
						break
					}
					past, ok := m.SnapPast[a]
					if !ok {
						continue
					}
					total := new(big.Int)
					bad := false
					for t := fat2.PTickerInvalid + 1; t < fat2.PTickerMax; t++ {
						if t == fat2.PTickerPEG {
							continue
						}
						v := cur[t]
						if past[t] < v {
							v = past[t]
						}
						if v == 0 {
							continue
						}
						if (sr[t] == 0 || sr[fat2.PTickerUSD] == 0) && h >= e.V202 {
							x.UnpricedStakes++
							continue
						}
						c, ok := Convert(false, v, sr[t], sr[t], sr[fat2.PTickerUSD], sr[fat2.PTickerUSD])
						if !ok {
							bad = true
							break
						}
						total.Add(total, new(big.Int).SetUint64(c))
					}
					if bad || !total.IsUint64() {
						x.Undetermined[a] = "stake not computable"
						continue
					}
					if total.Sign() > 0 {
						list = append(list, st{a, total.Uint64()})
					}
				}
				sort.Slice(list, func(i, j int) bool {
					if list[i].v != list[j].v {
						return list[i].v < list[j].v
					}
					return string(list[i].a[:]) < string(list[j].a[:])
				})
				var reqs []Request
				hash := fmt.Sprintf("%064d", h)
				for i, s := range list {
					reqs = append(reqs, Request{TxID: fmt.Sprintf("%d-%s", i, hash), Hash: hash, Index: i, Amount: s.v})
				}
				pay := Allocate(reqs, HolderCapPEG)
				for i, s := range list {
					p := pay[reqs[i].TxID]
					B.Add(s.a, fat2.PTickerPEG, p)
					x.SnapshotPaid[s.a] = p
					x.evU("C14", "holder-payout", s.a, fat2.PTickerPEG, p, false, reqs[i].TxID, true)
				}
			}
		}
		if rated {
			// one exception to "observed rates": a rate that is ZERO by the rules (an asset not priced yet, a value
			// outside the band from 2.0.2) stays zero for the admission rule, whatever the block recorded - a
			// conversion the protocol forbids is not made legitimate by a wrong rate row (which C12 reports)
			judged := obs
			if x.Rates != nil {
				for t, v := range obs {
					if want, ok := x.Rates[t.String()]; ok && want == 0 && v != 0 {
						if &judged == &obs || len(judged) == len(obs) {
							c := make(map[fat2.PTicker]uint64, len(obs))
							for k2, v2 := range judged {
								c[k2] = v2
							}
							judged = c
						}
						judged[t] = 0
					}
				}
			}
			pip10 := h >= e.PIP10
			L := rs.LastRatedBefore(h)
			avgs := m.Averages(rs, L)
			x.AveragesUsed = avgs
			// bank row
			if h >= e.V4 && h < e.V20 {
				x.Bank = &[3]int64{int64(BankPEG), 0, 0}
			}
			type pegReq struct {
				held Held
				idx  int
			}
			var pooled []pegReq
			processGroup := func(group []pegReq, bankHeight uint32) {
				var reqs []Request
				for _, g := range group {
					tx := g.held.Batch.Transactions[g.idx]
					amt, _ := Convert(pip10, tx.Input.Amount, obs[tx.Input.Type], avgs[tx.Input.Type], obs[tx.Conversion], avgs[tx.Conversion])
					hh := g.held.Entry.Hash.String()
					reqs = append(reqs, Request{TxID: fmt.Sprintf("%d-%s", g.idx, hh), Hash: hh, Index: g.idx, Amount: amt})
				}
				pay := Allocate(reqs, BankPEG)
				var used, asked int64
				for i, g := range group {
					tx := g.held.Batch.Transactions[g.idx]
					y := pay[reqs[i].TxID]
					used += int64(y)
					asked += int64(reqs[i].Amount)
					maxY, _ := Convert(false, tx.Input.Amount, obs[tx.Input.Type], obs[tx.Input.Type], obs[tx.Conversion], obs[tx.Conversion])
					var refund uint64
					if maxY >= y {
						refund, _ = Convert(false, maxY-y, obs[tx.Conversion], obs[tx.Conversion], obs[tx.Input.Type], obs[tx.Input.Type])
					}
					B.Add(tx.Input.Address, fat2.PTickerPEG, y)
					B.Add(tx.Input.Address, tx.Input.Type, refund)
					x.evU("C16", "peg-yield", tx.Input.Address, fat2.PTickerPEG, y, false, reqs[i].TxID, true)
					x.evU("C16", "peg-refund", tx.Input.Address, tx.Input.Type, refund, false, reqs[i].TxID, true)
					for oi := range x.Outcomes {
						if x.Outcomes[oi].Hash == g.held.Entry.Hash {
							x.Outcomes[oi].ToAmount[g.idx] = int64(y)
							x.Outcomes[oi].Note += fmt.Sprintf(" refund[%d]=%d", g.idx, refund)
						}
					}
				}
				if bankHeight >= e.V4 && x.Bank != nil {
					x.Bank[1] += used
					x.Bank[2] += asked
				}
			}
			// held batches: heights [L, h)
			var rest []Held
			byHeight := map[uint32][]Held{}
			for _, p := range m.Pending {
				if p.Height >= L && p.Height < h {
					byHeight[p.Height] = append(byHeight[p.Height], p)
				} else {
					rest = append(rest, p)
				}
			}
			for i := L; i < h; i++ {
				var group []pegReq
				for _, p := range byHeight[i] {
					if h >= e.ConversionLimit && h < e.V20 && p.Batch.HasPEGRequest() {
						// recorded finding shape: a PEG request together with a transaction that is NOT a PEG request
						// (several PEG requests in one batch are ordinary and fully judged)
						for _, tx := range p.Batch.Transactions {
							if !tx.IsPEGRequest() {
								x.MixedPegBatch = true
							}
						}
					}
					out := m.applyBatch(x, B, p.Batch, p.Entry, judged, avgs, h, true)
					if out.Code > 0 && h >= e.ConversionLimit && h < e.V20 {
						for ti, tx := range p.Batch.Transactions {
							if tx.IsPEGRequest() {
								group = append(group, pegReq{p, ti})
							}
						}
					}
				}
				if h >= e.ConversionLimit && h < e.V4 {
					processGroup(group, h-1)
				} else {
					pooled = append(pooled, group...)
				}
			}
			if h >= e.V4 && h < e.V20 {
				processGroup(pooled, h)
			}
			m.Pending = rest
		}
		// this block's entries
		for _, en := range b.Tx {
			fe := en.Parse()
			fe.Timestamp = time60(b.Time, en.Minute)
			tb, err := fat2.NewTransactionBatch(fe, int32(h))
			if err != nil {
				continue
			}
			// the daemon's reader decides signatures and timestamps here; the form and the amounts are
			// decided by the lab's own strict reader (only on the points the statements list)
			if sv := StrictFAT2([]byte(fe.Content), func(t string) bool { return fat2.StringToTicker(t) != fat2.PTickerInvalid }); !sv.OK && sv.Judged {
				x.Notes = append(x.Notes, "entry "+en.Hash.String()+" is not canonical ("+sv.Reason+"): inert")
				continue
			}
			if m.Seen[en.Hash] {
				continue // any repeat of an entry hash is inert
			}
			m.Seen[en.Hash] = true
			if tb.HasConversions() {
				m.Pending = append(m.Pending, Held{Height: h, Entry: en, Batch: tb})
				x.Outcomes = append(x.Outcomes, BatchOutcome{Hash: en.Hash, Code: 0, Held: true, Txs: len(tb.Transactions), HasConv: true, ToAmount: make([]int64, len(tb.Transactions)), Addr: tb.Transactions[0].Input.Address})
				continue
			}
			m.applyBatch(x, B, tb, en, nil, nil, h, false)
		}
	}
	// ---- FCT burns (before 2.0)
	if h < e.V20 {
		for _, ft := range b.FTxs {
			if len(ft.ECOuts) != 1 || len(ft.Inputs) != 1 || len(ft.Outputs) > 0 {
				continue
			}
			if [32]byte(ft.ECOuts[0].Address) != burnRCD || ft.ECOuts[0].Amount != 0 {
				continue
			}
			var a factom.FAAddress
			copy(a[:], ft.Inputs[0].Address[:])
			B.Add(a, fat2.PTickerFCT, ft.Inputs[0].Amount)
			x.evU("C11", "fct-burn", a, fat2.PTickerFCT, ft.Inputs[0].Amount, false, "burn", true)
		}
	}
	// ---- mining and staking rewards
	for _, p := range oprPay {
		a, err := factom.NewFAAddress(p.addr)
		if err != nil {
			continue // reward of a record with an unparsable payout address is dropped
		}
		x.OPRPaid[p.hash] = p.amount
		if p.amount >= 0 {
			B.Add(a, fat2.PTickerPEG, uint64(p.amount))
			x.ev("C11", "opr-reward", a, fat2.PTickerPEG, p.amount, p.hash, true)
		}
	}
	if h >= e.V20 {
		for _, p := range sprPay {
			a, err := factom.NewFAAddress(p.addr)
			if err != nil {
				continue
			}
			x.SPRPaid[p.hash] = p.amount
			B.Add(a, fat2.PTickerPEG, uint64(p.amount))
			x.ev("C11", "spr-reward", a, fat2.PTickerPEG, p.amount, p.hash, true)
		}
	}
	// ---- developer rewards
	if h >= e.V20Dev && h%144 == 0 {
		for _, d := range DevTable {
			amt := uint64((float64(DevPerBlockPEG) / 100) * d.Pct)
			if h >= e.V202 {
				amt = uint64((float64(DevPerBlockPEG) / 100) * d.Pct * 144)
			}
			a := mustFA(d.Addr)
			B.Add(a, fat2.PTickerPEG, amt)
			x.evU("C15", "developer-reward", a, fat2.PTickerPEG, amt, false, d.Addr, true)
		}
	}
	return x
}

func time60(blockUnix int64, minute int) time.Time {
	if minute < 1 {
		minute = 1
	}
	if minute > 10 {
		minute = 10
	}
	return time.Unix(blockUnix+int64(minute)*60, 0)
}

// applyBatch mirrors the two-pass funds check and the application of a batch.
func (m *Model) applyBatch(x *Expected, B Bal, tb *fat2.TransactionBatch, en forge.Entry, rates, avgs map[fat2.PTicker]uint64, h uint32, fromHolding bool) BatchOutcome {
	e := m.E
	out := BatchOutcome{Hash: en.Hash, Txs: len(tb.Transactions), HasConv: tb.HasConversions(), ToAmount: make([]int64, len(tb.Transactions)), Addr: tb.Transactions[0].Input.Address}
	pip10 := h >= e.PIP10
	finish := func() BatchOutcome {
		x.Outcomes = append(x.Outcomes, out)
		return out
	}
	if fromHolding && h >= e.V20 {
		for _, tx := range tb.Transactions {
			if tx.Conversion == fat2.PTickerPEG {
				out.Code = -2
				out.Note = "conversion into PEG is closed from 2.0"
				return finish()
			}
		}
	}
	// first pass: every transaction against the balances as they are now
	for _, tx := range tb.Transactions {
		if tx.Input.Amount > B.Get(tx.Input.Address, tx.Input.Type) {
			out.Code = -1
			return finish()
		}
		if tx.IsConversion() {
			if rates[tx.Input.Type] == 0 || rates[tx.Conversion] == 0 {
				out.Code = -4
				return finish()
			}
			if h >= e.OneWaypFCT && tx.Conversion == fat2.PTickerFCT {
				out.Code = -3
				return finish()
			}
			if h >= e.OneWaySmall && (tx.Conversion == fat2.PTickerPEG || smallCaps[tx.Conversion]) {
				out.Code = -5
				return finish()
			}
			if _, ok := Convert(pip10, tx.Input.Amount, rates[tx.Input.Type], avgs[tx.Input.Type], rates[tx.Conversion], avgs[tx.Conversion]); !ok {
				out.Code = 0
				out.Dropped = true
				out.Note = "unconvertible (average unavailable or overflow): dropped without effect"
				return finish()
			}
		}
	}
	// second pass: the batch as a whole must not overdraw, in order
	sim := map[fat2.PTicker]uint64{}
	in := tb.Transactions[0].Input.Address
	for t, v := range B[in] {
		sim[t] = v
	}
	for _, tx := range tb.Transactions {
		if sim[tx.Input.Type] < tx.Input.Amount {
			out.Code = -1
			return finish()
		}
		sim[tx.Input.Type] -= tx.Input.Amount
		if tx.IsConversion() {
			o, _ := Convert(pip10, tx.Input.Amount, rates[tx.Input.Type], avgs[tx.Input.Type], rates[tx.Conversion], avgs[tx.Conversion])
			sim[tx.Conversion] += o
		} else {
			for _, tr := range tx.Transfers {
				if tr.Address == in {
					sim[tx.Input.Type] += tr.Amount
				}
			}
		}
	}
	// apply
	out.Code = int64(h)
	// Outputs to the burn address are destroyed, not credited. From 2.0.2 that is the global burn
	// address; before, it is the all-zero address (which is what GlobalOldBurnAddress decodes to): the
	// daemon compares every output with a zero-valued address variable there. Resolved from the code,
	// the statement only says "burn-address transfers" are supply events.
	burn := factom.FAAddress{}
	burnActive := true
	if h >= e.V202 {
		burn = mustFA(GlobalBurnAddress)
	}
	ref := en.Hash.String()
	for ti, tx := range tb.Transactions {
		B.Touch(tx.Input.Address)
		if !B.Sub(tx.Input.Address, tx.Input.Type, tx.Input.Amount) {
			x.Notes = append(x.Notes, "model: batch passed both passes but overdraws while applying: "+ref)
			x.Undetermined[tx.Input.Address] = "mid-batch overdraw shape (recorded finding)"
		}
		if tx.IsConversion() {
			if h >= e.ConversionLimit && h < e.V20 && tx.IsPEGRequest() {
				out.PegReq = true
				x.evU("C16", "peg-request-debit", tx.Input.Address, tx.Input.Type, tx.Input.Amount, true, ref, true)
				continue
			}
			o, _ := Convert(pip10, tx.Input.Amount, rates[tx.Input.Type], avgs[tx.Input.Type], rates[tx.Conversion], avgs[tx.Conversion])
			B.Add(tx.Input.Address, tx.Conversion, o)
			out.ToAmount[ti] = int64(o)
			x.evU("C07", "conversion-debit", tx.Input.Address, tx.Input.Type, tx.Input.Amount, true, ref, true)
			x.evU("C07", "conversion-credit", tx.Input.Address, tx.Conversion, o, false, ref, true)
		} else {
			x.evU("C04", "transfer-debit", tx.Input.Address, tx.Input.Type, tx.Input.Amount, true, ref, false)
			for _, tr := range tx.Transfers {
				if burnActive && tr.Address == burn {
					x.evU("C04", "burn-address-transfer", tr.Address, tx.Input.Type, 0, false, ref, true)
					// value sent to the burn address is destroyed
					x.Events[len(x.Events)-1].Delta = big.NewInt(0)
					x.evU("C04", "burned", tx.Input.Address, tx.Input.Type, tr.Amount, true, ref+" (destroyed)", true)
					x.Events[len(x.Events)-1].Delta = big.NewInt(0) // the debit is already counted above; marker only
					continue
				}
				B.Add(tr.Address, tx.Input.Type, tr.Amount)
				x.evU("C04", "transfer-credit", tr.Address, tx.Input.Type, tr.Amount, false, ref, false)
			}
		}
	}
	_ = strings.TrimSpace
	return finish()
}
