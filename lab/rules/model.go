package rules

import (
	"bytes"
	"fmt"
	"math/big"
	"sort"

	"github.com/Factom-Asset-Tokens/factom"
	"github.com/pegnet/pegnetd/fat/fat2"
	"verif/lab/forge"
)

// This file is the lab's reference model of what one block does to the ledger, written from the
// property statements and DESIGN.md appendix A. It is re-based on the OBSERVED previous state at
// every block, so it only ever predicts one step.

// Bal is the balance table: address → ticker → amount.
type Bal map[factom.FAAddress]map[fat2.PTicker]uint64

func (b Bal) Get(a factom.FAAddress, t fat2.PTicker) uint64 {
	if m, ok := b[a]; ok {
		return m[t]
	}
	return 0
}

func (b Bal) Add(a factom.FAAddress, t fat2.PTicker, v uint64) {
	m, ok := b[a]
	if !ok {
		m = map[fat2.PTicker]uint64{}
		b[a] = m
	}
	m[t] += v
}

// Touch makes sure the address has a row (the daemon creates rows for zero-amount operations).
func (b Bal) Touch(a factom.FAAddress) {
	if _, ok := b[a]; !ok {
		b[a] = map[fat2.PTicker]uint64{}
	}
}

func (b Bal) Sub(a factom.FAAddress, t fat2.PTicker, v uint64) bool {
	if b.Get(a, t) < v {
		return false
	}
	b[a][t] -= v
	return true
}

func (b Bal) Clone() Bal {
	out := Bal{}
	for a, m := range b {
		n := make(map[fat2.PTicker]uint64, len(m))
		for t, v := range m {
			n[t] = v
		}
		out[a] = n
	}
	return out
}

// Event is one ledger event the model predicts for the block, tagged with the property that owns it.
type Event struct {
	Prop   string // property id the event belongs to
	Kind   string
	Addr   factom.FAAddress
	Asset  fat2.PTicker
	Delta  *big.Int // signed expected change
	Ref    string   // entry hash / description
	Supply bool     // true when the event creates or destroys supply (not a move)
}

// Held is a batch waiting in holding.
type Held struct {
	Height uint32
	Entry  forge.Entry
	Batch  *fat2.TransactionBatch
}

// BatchOutcome is the expected fate of a batch considered in this block.
type BatchOutcome struct {
	Hash     factom.Bytes32
	Code     int64 // execution height, or negative reject code, or 0 = stays pending / silently dropped
	Dropped  bool  // "unconvertible amount dropped without effect" (status stays 0)
	Held     bool  // newly put into holding by this block
	ToAmount []int64
	Note     string
	Txs      int
	HasConv  bool
	PegReq   bool
	Addr     factom.FAAddress // input address of the batch
}

// RatesAt returns recorded rates of a height (ticker → value); nil when the height has none.
type RateSource interface {
	Rates(h uint32) map[fat2.PTicker]uint64
	// LastRatedBefore returns the greatest rated height < h (0 if none).
	LastRatedBefore(h uint32) uint32
}

// Model carries what the lab must remember between blocks (besides the observed state).
type Model struct {
	E           forge.Eras
	AvgPeriod   uint64
	AvgRequired uint64
	Pending     []Held // batches in holding, in insertion order
	Seen        map[factom.Bytes32]bool
	SnapCur     Bal // lab's own copies of the two most recent snapshots
	SnapPast    Bal
	PrevWinners []string
}

func NewModel(e forge.Eras, period uint64) *Model {
	return &Model{E: e, AvgPeriod: period, AvgRequired: period / 2, Seen: map[factom.Bytes32]bool{}, SnapCur: Bal{}, SnapPast: Bal{}}
}

var maxI64 = new(big.Int).SetUint64(1<<63 - 1)

// Convert is floor(amount × S / D); under PIP-10 S = min(spot, avg), D = max(spot, avg).
// ok=false: the conversion cannot be computed (zero rate, unavailable average, overflow).
func Convert(pip10 bool, amount uint64, srcRate, srcAvg, dstRate, dstAvg uint64) (uint64, bool) {
	if srcRate == 0 || dstRate == 0 || amount > 1<<63-1 {
		return 0, false
	}
	s, d := srcRate, dstRate
	if pip10 {
		if srcAvg == 0 || dstAvg == 0 {
			return 0, false
		}
		if srcAvg < s {
			s = srcAvg
		}
		if dstAvg > d {
			d = dstAvg
		}
	}
	n := new(big.Int).Mul(new(big.Int).SetUint64(amount), new(big.Int).SetUint64(s))
	n.Div(n, new(big.Int).SetUint64(d))
	if n.Cmp(maxI64) > 0 {
		return 0, false
	}
	return n.Uint64(), true
}

// Averages computes the rolling averages at rated height L from the recorded rates:
// mean of the values recorded in heights [L-P+1, L]; 0 if fewer than P/2 non-zero values.
func (m *Model) Averages(rs RateSource, L uint32) map[fat2.PTicker]uint64 {
	out := map[fat2.PTicker]uint64{}
	if L == 0 {
		return out
	}
	start := int64(L) - int64(m.AvgPeriod) + 1
	if start < 1 {
		start = 1
	}
	vals := map[fat2.PTicker][]uint64{}
	for h := uint32(start); h <= L; h++ {
		for t, v := range rs.Rates(h) {
			vals[t] = append(vals[t], v)
		}
	}
	for t, l := range vals {
		nz := uint64(0)
		sum := uint64(0)
		for _, v := range l {
			if v != 0 {
				nz++
			}
			sum += v
		}
		if nz < m.AvgRequired {
			out[t] = 0
			continue
		}
		out[t] = sum / uint64(len(l))
	}
	return out
}

var smallCaps = map[fat2.PTicker]bool{fat2.PTickerDCR: true, fat2.PTickerDGB: true, fat2.PTickerDOGE: true, fat2.PTickerHBAR: true, fat2.PTickerONT: true,
	fat2.PTickerRVN: true, fat2.PTickerBAT: true, fat2.PTickerALGO: true, fat2.PTickerBIF: true, fat2.PTickerETB: true, fat2.PTickerKES: true,
	fat2.PTickerNGN: true, fat2.PTickerRWF: true, fat2.PTickerTZS: true, fat2.PTickerUGX: true}

// Special addresses (literal copies; editing node/burns.go must not move the oracle).
const (
	GlobalBurnAddress    = "FA2BURNBABYBURNoooooooooooooooooooooooooooooooDGvNXy"
	GlobalOldBurnAddress = "FA1y5ZGuHSLmf2TqNf6hVMkPiNGyQpQDTFJvDLRkKQaoPo4bmbgu"
)

// GlobalMintAddress is a variable only so that a scenario can mint to an address whose key the lab holds
// (the owner of the real one can spend from it; the lab cannot sign for it). Default: the literal address.
var GlobalMintAddress = "FA3j16WPCiqsAFHVZcEoL85Khh5RhPCNe6PWHBKgUxrx8MAnbNoy"

func mustFA(s string) factom.FAAddress {
	a, err := factom.NewFAAddress(s)
	if err != nil {
		return factom.FAAddress{}
	}
	return a
}

// DevTable is the literal developer reward table (address, percent).
var DevTable = []struct {
	Addr string
	Pct  float64
}{
	{"FA2i9WZqJnaKbJxDY2AZdVgewE28uCcSwoFt8LJCMtGCC7tpCa2n", 10.00},
	{"FA37cGXKWMtf2MmHy3n1rMCYeLVuR5MpDaP4VXVeFavjJCJLYYez", 19.0},
	{"FA2wDRieaBrWeZHVuXXWUHY6t9nKCVCCKAMS5xknLUExuVAq3ziS", 9.0},
	{"FA3LDEA5fcskV6ZoFpKE84qPcjd7GYjEnswGHMZXL1V9d14wmgh3", 9.0},
	{"FA381EygeEXjZzB6hNvxbE4oSUzHZMfvGByMZoW5UrG1gHEKJcNK", 8.0},
	{"FA2DxkaTx1k2oGfbTqvwVMScSHHac7JFRiBjRngjRnqQpeBxsLhA", 8.0},
	{"FA2Ersb227gn7eWJ2HPsHZ5QqxfMBZhSjwixQ44dAS17CtRXSDRU", 8.0},
	{"FA2eFEVUzTQZxNp3LYYgjPaaHUfGmuvShhtBdGB2BBWMeByPCmJy", 8.0},
	{"FA2T72oxBxXvnujNdsVUshqFM2qV1W4nJy33nkrpxbYQV8rFbUPP", 5.0},
	{"FA2cEaq1GdGfFjhymiTEzW24DocZFZHNBqe9qkT18YPaL5ZzsgRi", 5.0},
	{"FA2YhZBZbc4V858ao7dJuAqRC4iwA3MrbZs7BHUPK7Mq19yYdMwZ", 3.0},
	{"FA3PYuvrsDvkhnekokVNrgLn7JiL5pChSBTtR9gZB1mVGFVB7JRD", 3.0},
	{"FA2Wy7AzeoBuaXYnGu67xa5zdNkmqTbPryUgpy7qVPvj46GRZkep", 2.0},
	{"FA2a2nXgkBg7pL5wrgm99rLZDGFs2T8jfTgMuia6ep8ZMkVtPe8E", 3.00},
}

// MintTable is the literal 2.0.4 mint table (whole tokens).
var MintTable = []struct {
	T fat2.PTicker
	N uint64
}{
	{fat2.PTickerPEG, 334509613}, {fat2.PTickerUSD, 3184409}, {fat2.PTickerKRW, 118}, {fat2.PTickerXAU, 1}, {fat2.PTickerXAG, 599},
	{fat2.PTickerXBT, 2}, {fat2.PTickerETH, 5476}, {fat2.PTickerLTC, 2004}, {fat2.PTickerRVN, 13124813}, {fat2.PTickerXBC, 243},
	{fat2.PTickerBNB, 3461}, {fat2.PTickerXLM, 45892}, {fat2.PTickerADA, 1414096}, {fat2.PTickerXMR, 682}, {fat2.PTickerDASH, 6001},
	{fat2.PTickerZEC, 2696}, {fat2.PTickerEOS, 2059}, {fat2.PTickerLINK, 9110}, {fat2.PTickerATOM, 101}, {fat2.PTickerNEO, 2},
	{fat2.PTickerCRO, 164}, {fat2.PTickerETC, 5}, {fat2.PTickerVET, 22400000}, {fat2.PTickerHT, 5}, {fat2.PTickerDCR, 1049},
	{fat2.PTickerAUD, 9}, {fat2.PTickerNOK, 59}, {fat2.PTickerXTZ, 11117}, {fat2.PTickerDOGE, 9870}, {fat2.PTickerALGO, 457602},
	{fat2.PTickerDGB, 51175},
}

const (
	pegUnit        = uint64(100000000)
	BankPEG        = 5000 * pegUnit
	HolderCapPEG   = 4500 * 144 * pegUnit
	DevPerBlockPEG = 2000 * pegUnit
)

// Request is one entry of a proportional allocation (bank or holder payout).
type Request struct {
	TxID   string // "idx-hash"
	Hash   string
	Index  int
	Amount uint64
}

// Allocate implements "full if the total fits, else floor(req×bank/total) + dust to the largest
// request, ties to the lowest txid (hash, then index)".
func Allocate(reqs []Request, bank uint64) map[string]uint64 {
	out := map[string]uint64{}
	if len(reqs) == 0 {
		return out
	}
	total := new(big.Int)
	for _, r := range reqs {
		total.Add(total, new(big.Int).SetUint64(r.Amount))
	}
	if total.IsUint64() && total.Uint64() < bank {
		for _, r := range reqs {
			out[r.TxID] = r.Amount
		}
		return out
	}
	var paid uint64
	for _, r := range reqs {
		p := uint64(0)
		if r.Amount != 0 && bank != 0 && total.Sign() != 0 {
			x := new(big.Int).Mul(new(big.Int).SetUint64(r.Amount), new(big.Int).SetUint64(bank))
			x.Quo(x, total)
			p = x.Uint64()
		}
		out[r.TxID] = p
		paid += p
	}
	dust := bank - paid
	best := -1
	for i, r := range reqs {
		if best < 0 || r.Amount > reqs[best].Amount ||
			(r.Amount == reqs[best].Amount && (r.Hash < reqs[best].Hash || (r.Hash == reqs[best].Hash && r.Index < reqs[best].Index))) {
			best = i
		}
	}
	// a request of 0 can only be "largest" when all are 0; the dust still goes to it
	out[reqs[best].TxID] += dust
	return out
}

// TopPEG returns the set of (up to) n addresses with the largest positive PEG balance and whether
// the cut at rank n falls inside a tie (then membership of the tied addresses is undetermined).
func TopPEG(b Bal, n int) (map[factom.FAAddress]bool, map[factom.FAAddress]bool) {
	type ab struct {
		a factom.FAAddress
		v uint64
	}
	var l []ab
	for a, m := range b {
		if m[fat2.PTickerPEG] > 0 {
			l = append(l, ab{a, m[fat2.PTickerPEG]})
		}
	}
	sort.Slice(l, func(i, j int) bool {
		if l[i].v != l[j].v {
			return l[i].v > l[j].v
		}
		return bytes.Compare(l[i].a[:], l[j].a[:]) < 0
	})
	in := map[factom.FAAddress]bool{}
	und := map[factom.FAAddress]bool{}
	for i, x := range l {
		if i < n {
			in[x.a] = true
		}
	}
	if len(l) > n && l[n-1].v == l[n].v {
		for _, x := range l {
			if x.v == l[n].v {
				und[x.a] = true
			}
		}
	}
	return in, und
}

func describeTx(t fat2.Transaction) string {
	if t.IsConversion() {
		return fmt.Sprintf("conv %d %s->%s", t.Input.Amount, t.Input.Type, t.Conversion)
	}
	return fmt.Sprintf("xfer %d %s", t.Input.Amount, t.Input.Type)
}
