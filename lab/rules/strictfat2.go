// Package rules holds the lab's small reference functions, written from the property
// statements (not from the daemon's code).
package rules

import (
	"bytes"
	"encoding/json"
	"fmt"
	"io"
	"math/big"
	"strings"

	"github.com/Factom-Asset-Tokens/factom"
)

// node is a JSON value that keeps object member order and duplicates.
type node struct {
	kind  byte // 'o' object, 'a' array, 's' string, 'n' number, 'b' bool, 'z' null
	keys  []string
	vals  []*node
	str   string
	raw   string // a string value exactly as written (with its quotes)
	num   string
	items []*node
}

func parseNode(dec *json.Decoder, content []byte) (*node, error) {
	before := dec.InputOffset()
	tok, err := dec.Token()
	if err != nil {
		return nil, err
	}
	switch t := tok.(type) {
	case json.Delim:
		switch t {
		case '{':
			n := &node{kind: 'o'}
			for dec.More() {
				kt, err := dec.Token()
				if err != nil {
					return nil, err
				}
				k, ok := kt.(string)
				if !ok {
					return nil, fmt.Errorf("non-string key")
				}
				v, err := parseNode(dec, content)
				if err != nil {
					return nil, err
				}
				n.keys = append(n.keys, k)
				n.vals = append(n.vals, v)
			}
			if _, err := dec.Token(); err != nil {
				return nil, err
			}
			return n, nil
		case '[':
			n := &node{kind: 'a'}
			for dec.More() {
				v, err := parseNode(dec, content)
				if err != nil {
					return nil, err
				}
				n.items = append(n.items, v)
			}
			if _, err := dec.Token(); err != nil {
				return nil, err
			}
			return n, nil
		}
		return nil, fmt.Errorf("unexpected delimiter")
	case string:
		raw := ""
		if after := dec.InputOffset(); before >= 0 && after <= int64(len(content)) && before <= after {
			raw = strings.TrimLeft(string(content[before:after]), " \t\r\n,:")
		}
		return &node{kind: 's', str: t, raw: raw}, nil
	case json.Number:
		return &node{kind: 'n', num: string(t)}, nil
	case bool:
		return &node{kind: 'b'}, nil
	case nil:
		return &node{kind: 'z'}, nil
	}
	return nil, fmt.Errorf("unexpected token")
}

// Verdict of the strict reader.
type Verdict struct {
	OK     bool
	Reason string // class of the first problem found
	Judged bool   // true when Reason is one the property statement lists
	Txs    []StrictTx
}

// StrictTx is a decoded transaction.
type StrictTx struct {
	From     string
	Amount   uint64
	Type     string
	Conv     string
	Outs     []StrictOut
	HasXfers bool
}

type StrictOut struct {
	Addr   string
	Amount uint64
}

func reject(reason string, judged bool) Verdict { return Verdict{Reason: reason, Judged: judged} }

// objCheck validates member names: duplicates and unknown names are the listed reasons.
func objCheck(n *node, allowed ...string) *Verdict {
	seen := map[string]bool{}
	for _, k := range n.keys {
		if seen[k] {
			v := reject("duplicate key "+k, true)
			return &v
		}
		seen[k] = true
		ok := false
		for _, a := range allowed {
			if a == k {
				ok = true
			}
		}
		if !ok {
			for _, a := range allowed {
				if strings.EqualFold(a, k) {
					v := reject("key differs in letter case: "+k, false)
					return &v
				}
			}
			v := reject("unknown key "+k, true)
			return &v
		}
	}
	return nil
}

func (n *node) get(k string) *node {
	for i, x := range n.keys {
		if x == k {
			return n.vals[i]
		}
	}
	return nil
}

var maxInt64 = new(big.Int).SetUint64(1<<63 - 1)

func amountOf(n *node, limitInt64 bool) (uint64, *Verdict) {
	if n == nil || n.kind != 'n' {
		v := reject("amount missing or not a number", false)
		return 0, &v
	}
	b, ok := new(big.Int).SetString(n.num, 10)
	if !ok || b.Sign() < 0 || (len(n.num) > 1 && n.num[0] == '0') {
		v := reject("amount not a canonical non-negative integer: "+n.num, false)
		return 0, &v
	}
	if limitInt64 && b.Cmp(maxInt64) > 0 {
		v := reject("amount exceeds int64: "+n.num, true)
		return 0, &v
	}
	if !b.IsUint64() {
		v := reject("amount exceeds uint64: "+n.num, true)
		return 0, &v
	}
	return b.Uint64(), nil
}

// StrictFAT2 reads batch content the way the property statement defines the canonical form.
// knownTicker reports whether a ticker string names an asset.
func StrictFAT2(content []byte, knownTicker func(string) bool) Verdict {
	dec := json.NewDecoder(bytes.NewReader(content))
	dec.UseNumber()
	root, err := parseNode(dec, content)
	if err != nil {
		return reject("not valid JSON: "+err.Error(), false)
	}
	if _, err := dec.Token(); err != io.EOF {
		return reject("trailing data after JSON value", false)
	}
	if root.kind != 'o' {
		return reject("batch is not an object", false)
	}
	if v := objCheck(root, "version", "transactions", "metadata"); v != nil {
		return *v
	}
	if root.get("metadata") != nil {
		return reject("batch-level metadata", false)
	}
	ver := root.get("version")
	if ver == nil || ver.kind != 'n' || ver.num != "1" {
		return reject("version is not 1", false)
	}
	txs := root.get("transactions")
	if txs == nil || txs.kind != 'a' || len(txs.items) == 0 {
		return reject("transactions missing or empty", false)
	}
	var out []StrictTx
	inputs := map[string]bool{}
	for _, t := range txs.items {
		if t.kind != 'o' {
			return reject("transaction is not an object", false)
		}
		if v := objCheck(t, "input", "transfers", "conversion", "metadata"); v != nil {
			return *v
		}
		in := t.get("input")
		if in == nil || in.kind != 'o' {
			return reject("input missing", false)
		}
		if v := objCheck(in, "address", "amount", "type"); v != nil {
			return *v
		}
		var st StrictTx
		a := in.get("address")
		if a == nil || a.kind != 's' {
			return reject("input address missing", false)
		}
		var fa factom.FAAddress
		if err := fa.Set(a.str); err != nil {
			return reject("input address invalid", false)
		}
		st.From = a.str
		amt, v := amountOf(in.get("amount"), true)
		if v != nil {
			return *v
		}
		st.Amount = amt
		ty := in.get("type")
		if ty == nil || ty.kind != 's' {
			return reject("input type missing", false)
		}
		if !knownTicker(ty.str) {
			return reject("unknown ticker "+ty.str, true)
		}
		if ty.raw != `"`+ty.str+`"` {
			return reject("unknown ticker spelling "+ty.raw+" (a ticker is one of the listed names, written literally)", true)
		}
		st.Type = ty.str
		xf, cv := t.get("transfers"), t.get("conversion")
		// canonical form carries exactly one of the two MEMBERS; an empty or null member is still a member
		if (xf != nil) == (cv != nil) {
			return reject("transaction needs exactly one of transfers or conversion", true)
		}
		hasX := xf != nil && !(xf.kind == 'a' && len(xf.items) == 0) && xf.kind != 'z'
		hasC := cv != nil && !(cv.kind == 's' && cv.str == "") && cv.kind != 'z'
		if hasX == hasC {
			return reject("transaction needs exactly one of transfers or conversion", true)
		}
		if hasC {
			if cv.kind != 's' {
				return reject("conversion is not a string", false)
			}
			if !knownTicker(cv.str) {
				return reject("unknown ticker "+cv.str, true)
			}
			if cv.raw != `"`+cv.str+`"` {
				return reject("unknown ticker spelling "+cv.raw+" (a ticker is one of the listed names, written literally)", true)
			}
			st.Conv = cv.str
		} else {
			if xf.kind != 'a' {
				return reject("transfers is not an array", false)
			}
			st.HasXfers = true
			sum := new(big.Int)
			for _, o := range xf.items {
				if o.kind != 'o' {
					return reject("transfer is not an object", false)
				}
				if v := objCheck(o, "address", "amount"); v != nil {
					return *v
				}
				oa := o.get("address")
				if oa == nil || oa.kind != 's' {
					return reject("transfer address missing", false)
				}
				var ofa factom.FAAddress
				if err := ofa.Set(oa.str); err != nil {
					return reject("transfer address invalid", false)
				}
				oamt, v := amountOf(o.get("amount"), true)
				if v != nil {
					return *v
				}
				sum.Add(sum, new(big.Int).SetUint64(oamt))
				st.Outs = append(st.Outs, StrictOut{oa.str, oamt})
			}
			// exact amounts: what leaves the input is what the outputs receive, computed without wrap-around
			if sum.Cmp(new(big.Int).SetUint64(st.Amount)) != 0 {
				return reject("transfer amounts do not add up to the input amount", true)
			}
		}
		inputs[st.From] = true
		out = append(out, st)
	}
	if len(inputs) != 1 {
		return reject("more than one input address", true)
	}
	return Verdict{OK: true, Txs: out}
}

// ExactFactoshi converts a decimal string to base units exactly: (value, true) when the string is
// a plain decimal with at most 8 fractional digits whose value×10^8 fits uint64.
func ExactFactoshi(s string) (*big.Int, bool) {
	if s == "" {
		return nil, false
	}
	whole, frac := s, ""
	if i := strings.IndexByte(s, '.'); i >= 0 {
		whole, frac = s[:i], s[i+1:]
		if frac == "" {
			return nil, false
		}
	}
	if whole == "" && frac == "" {
		return nil, false
	}
	for _, c := range whole + frac {
		if c < '0' || c > '9' {
			return nil, false
		}
	}
	if len(frac) > 8 {
		return nil, false
	}
	for len(frac) < 8 {
		frac += "0"
	}
	v, ok := new(big.Int).SetString("0"+whole+frac, 10)
	if !ok {
		return nil, false
	}
	return v, true
}
