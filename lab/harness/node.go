package harness

import (
	"context"
	"database/sql"
	"encoding/json"
	"errors"
	"fmt"
	"io"
	"os"
	"path/filepath"
	"runtime"
	"strings"
	"sync"
	"time"

	"github.com/pegnet/pegnetd/config"
	"github.com/pegnet/pegnetd/node"
	log "github.com/sirupsen/logrus"
	"github.com/spf13/viper"
	"verif/lab/forge"
	"verif/lab/vdriver"
)

// NodeConfig configures one daemon instance.
type NodeConfig struct {
	DBPath      string // path without the ".v4" suffix the daemon appends
	WAL         bool
	Sync        string // "" → _synchronous=OFF (fast); "FULL" etc. for crash tests
	CachePages  int    // > 0: SQLite page cache of that many pages (dirty pages spill to the file mid-transaction)
	Wrap        bool   // route the daemon's database handle through sqlite3_verif
	RetryPeriod time.Duration
	DisableFork bool // app.DisableHardForkCheck
	LogLevel    log.Level
	LogTo       io.Writer
	MaxConns    int // database/sql pool limit for the daemon's handle (0 = default)
}

// Node is a running daemon (real node.Pegnetd) attached to a fake factomd.
type Node struct {
	Cfg    NodeConfig
	P      *node.Pegnetd
	Fake   *Fake
	RO     *sql.DB // the lab's own read-only connection
	ctx    context.Context
	cancel context.CancelFunc
	done   chan struct{}
	mu     sync.Mutex
	exited bool
	ran    bool
	fatal  bool // the daemon called log.Fatal (crash-stop)
}

// Fataled reports whether the daemon called log.Fatal since start.
func (n *Node) Fataled() bool { n.mu.Lock(); defer n.mu.Unlock(); return n.fatal }

// DBFile is the actual database file name.
func (c NodeConfig) DBFile() string { return c.DBPath + ".v4" }

func (c NodeConfig) dsn() string {
	// mirrors pegnet.Pegnet.Init
	modes := ""
	if c.WAL {
		modes += "_journal=WAL&"
	}
	modes += c.mode()
	d := c.DBFile()
	if modes != "" {
		d += "?" + modes
	}
	return d
}

func (c NodeConfig) mode() string {
	m := "_synchronous=" + c.Sync
	if c.Sync == "" {
		m = "_synchronous=OFF"
	}
	if c.CachePages > 0 {
		m += fmt.Sprintf("&_cache_size=%d", c.CachePages)
	}
	return m
}

// ErrRefused is returned when NewPegnetd itself refuses to start (C19 observes this).
type ErrRefused struct{ Err error }

func (e ErrRefused) Error() string { return "daemon refused to start: " + e.Err.Error() }

// StartNode constructs the real daemon on the database and attaches the seams. It does not start syncing.
func StartNode(cfg NodeConfig, chain *forge.Chain) (*Node, error) {
	chain.Eras.Apply()
	if cfg.RetryPeriod == 0 {
		cfg.RetryPeriod = 2 * time.Millisecond
	}
	if cfg.LogTo != nil {
		log.SetOutput(cfg.LogTo)
	} else {
		log.SetOutput(io.Discard)
	}
	if cfg.LogLevel == 0 {
		cfg.LogLevel = log.ErrorLevel
	}
	log.SetLevel(cfg.LogLevel)
	installErrRing()
	os.MkdirAll(filepath.Dir(cfg.DBPath), 0755)

	v := viper.New()
	v.Set(config.SqliteDBPath, cfg.DBPath)
	v.Set(config.Server, "http://fake.invalid/v2")
	v.Set(config.DBlockSyncRetryPeriod, cfg.RetryPeriod.String())
	v.Set(config.Network, "verif")
	v.Set(config.CustomSQLDBMode, cfg.mode())
	v.Set(config.SQLDBWalMode, cfg.WAL)
	v.Set(config.DisableHardForkCheck, cfg.DisableFork)

	ctx, cancel := context.WithCancel(context.Background())
	p, err := node.NewPegnetd(ctx, v)
	if err != nil {
		cancel()
		return nil, ErrRefused{err}
	}
	n := &Node{Cfg: cfg, P: p, ctx: ctx, cancel: cancel, done: make(chan struct{})}
	// log.Fatal would take the whole lab process down; turn it into an observation: the calling
	// goroutine (the sync loop) ends, which is what a crash-stop of the daemon amounts to.
	log.StandardLogger().ExitFunc = func(int) {
		n.mu.Lock()
		n.fatal = true
		n.mu.Unlock()
		runtime.Goexit()
	}
	n.Fake = NewFake(chain)
	p.FactomClient.Factomd.Transport = n.Fake
	p.FactomClient.Factomd.Timeout = 30 * time.Second
	if cfg.Wrap {
		// the wrapper driver opens the database itself; it must do so the way the daemon did. What the daemon's
		// own connection ended up with (journal mode, synchronous) is read back and carried over, so that the
		// daemon's choice of these is part of what is tested.
		dsn := cfg.dsn()
		var jm string
		var syn int
		if p.Pegnet.DB.QueryRow("PRAGMA journal_mode").Scan(&jm) == nil && jm != "" && !strings.Contains(dsn, "_journal=") {
			dsn += "&_journal=" + strings.ToUpper(jm)
		}
		if p.Pegnet.DB.QueryRow("PRAGMA synchronous").Scan(&syn) == nil {
			want := map[string]int{"OFF": 0, "NORMAL": 1, "FULL": 2, "EXTRA": 3}
			cs := cfg.Sync
			if cs == "" {
				cs = "OFF"
			}
			if w, ok := want[strings.ToUpper(cs)]; ok && w != syn {
				dsn = strings.Replace(dsn, "_synchronous="+cs, fmt.Sprintf("_synchronous=%d", syn), 1)
			}
		}
		p.Pegnet.DB.Close()
		db, err := sql.Open("sqlite3_verif", dsn)
		if err != nil {
			cancel()
			return nil, err
		}
		p.Pegnet.DB = db
	}
	if cfg.MaxConns > 0 {
		p.Pegnet.DB.SetMaxOpenConns(cfg.MaxConns)
	}
	ro, err := OpenRO(cfg.DBFile())
	if err != nil {
		cancel()
		return nil, err
	}
	n.RO = ro
	// the daemon idles at its current height until WaitSynced raises the cap (otherwise the first
	// `heights` answer after Run() could already show the whole chain)
	n.Fake.SetCap(p.Sync.Synced)
	return n, nil
}

// Run starts the real sync loop in its own goroutine.
func (n *Node) Run() {
	n.mu.Lock()
	n.ran = true
	n.mu.Unlock()
	go func() {
		defer close(n.done)
		defer func() {
			n.mu.Lock()
			n.exited = true
			n.mu.Unlock()
		}()
		n.P.DBlockSync(n.ctx)
	}()
}

// Stop cancels the daemon cleanly and closes the database.
func (n *Node) Stop() {
	n.cancel()
	n.mu.Lock()
	ran := n.ran
	n.mu.Unlock()
	if ran {
		select {
		case <-n.done:
		case <-time.After(20 * time.Second):
		}
	}
	n.P.Pegnet.DB.Close()
	n.RO.Close()
}

// Synced reads the committed sync height from the database (own connection).
func (n *Node) Synced() (uint32, error) {
	return ReadSynced(n.RO)
}

// ReadSynced reads pn_metadata['synced'].
func ReadSynced(db *sql.DB) (uint32, error) {
	var data []byte
	err := db.QueryRow("SELECT value FROM pn_metadata WHERE name = 'synced'").Scan(&data)
	if err == sql.ErrNoRows {
		return 0, nil
	}
	if err != nil {
		return 0, err
	}
	var bs struct{ Synced uint32 }
	if err := json.Unmarshal(data, &bs); err != nil {
		return 0, err
	}
	return bs.Synced, nil
}

// errRing keeps the daemon's most recent error-level log line (whatever the log output is), so that a
// wedge can be reported with its cause.
type errRing struct {
	mu   sync.Mutex
	last string
}

func (r *errRing) Levels() []log.Level {
	return []log.Level{log.ErrorLevel, log.FatalLevel, log.PanicLevel}
}
func (r *errRing) Fire(e *log.Entry) error {
	r.mu.Lock()
	msg := e.Message
	if v, ok := e.Data[log.ErrorKey]; ok {
		msg += ": " + fmt.Sprint(v)
	}
	if len(msg) > 300 {
		msg = msg[:300]
	}
	r.last = msg
	r.mu.Unlock()
	return nil
}

var theErrRing *errRing
var errRingOnce sync.Once

func installErrRing() {
	errRingOnce.Do(func() {
		theErrRing = &errRing{}
		log.AddHook(theErrRing)
	})
}

// LastDaemonError returns the most recent error-level log line of the daemon in this process.
func LastDaemonError() string {
	if theErrRing == nil {
		return ""
	}
	theErrRing.mu.Lock()
	defer theErrRing.mu.Unlock()
	return theErrRing.last
}

// ErrWedged: the daemon asked for the same directory block more than the allowed number of times without progress.
var ErrWedged = errors.New("wedged: same height requested repeatedly without progress")

// ErrFatal: the daemon called log.Fatal.
var ErrFatal = errors.New("daemon called log.Fatal (crash-stop)")

// ErrWatchdog: generous wall-clock limit hit (inconclusive, never a violation by itself).
var ErrWatchdog = errors.New("watchdog: wall-clock limit reached")

// WaitOpts controls WaitSynced.
type WaitOpts struct {
	MaxAttempts int           // dblock-by-height requests for one height without progress before ErrWedged (default 4)
	Watchdog    time.Duration // default 120s
}

// WaitSynced lets the daemon sync up to target (raising the fake's cap) and returns when the
// database's committed height reaches it. Progress is judged in logical steps: the number of
// times the daemon re-requests the directory block of the height it is stuck on.
func (n *Node) WaitSynced(target uint32, o WaitOpts) error {
	if o.MaxAttempts == 0 {
		o.MaxAttempts = 4
	}
	if o.Watchdog == 0 {
		o.Watchdog = 120 * time.Second
	}
	n.Fake.SetCap(target)
	deadline := time.Now().Add(o.Watchdog)
	last, _ := n.Synced()
	base := n.Fake.DBlockRequests(last + 1)
	for {
		s, err := n.Synced()
		if err != nil {
			// a daemon that died (log.Fatal) with its transaction open may still hold the write lock
			time.Sleep(20 * time.Millisecond)
			if n.Fataled() {
				return ErrFatal
			}
			return err
		}
		if s >= target {
			return nil
		}
		if s != last {
			last = s
			base = n.Fake.DBlockRequests(last + 1)
		}
		att := n.Fake.DBlockRequests(last+1) - base
		lim := o.MaxAttempts
		if last+1 == config.V20DevRewardsHeightActivation || last+1 == config.V202EnhanceActivation {
			lim *= 2 // these heights fetch their directory block twice per attempt
		}
		if att > lim {
			return fmt.Errorf("%w: height %d requested %d times; last daemon error: %s", ErrWedged, last+1, att, LastDaemonError())
		}
		if idle := n.Fake.IdlePolls(); idle > 80 {
			// the upstream node has announced a higher height 80 times in a row and the daemon has not asked for
			// a block since: it takes itself for synced at a height its database does not have
			if s2, err2 := n.Synced(); err2 == nil && s2 < target {
				return fmt.Errorf("%w: the daemon has polled the upstream height %d times without requesting block %d (database at %d); last daemon error: %s", ErrWedged, idle, s2+1, s2, LastDaemonError())
			}
		}
		n.mu.Lock()
		ex := n.exited
		n.mu.Unlock()
		if ex {
			if n.Fataled() {
				return ErrFatal
			}
			return errors.New("sync loop exited")
		}
		if time.Now().After(deadline) {
			if where := syncLoopHang(); where != "" {
				// not a slow machine: the runtime itself reports the sync goroutine parked on a channel / lock for
				// minutes, inside the daemon's own code - applying the block does not terminate
				return fmt.Errorf("%w: height %d is never applied: the sync goroutine hangs (%s); last daemon error: %s", ErrWedged, s+1, where, LastDaemonError())
			}
			return fmt.Errorf("%w at height %d (target %d)", ErrWatchdog, s, target)
		}
		select {
		case <-n.Fake.HeightsSignal():
		case <-time.After(50 * time.Millisecond):
		}
	}
}

// syncLoopHang looks at the goroutine dump: if the goroutine running DBlockSync has been parked for at least a
// minute (the runtime appends "N minutes" to the state) on a channel operation, select, lock or wait group - not in
// a system call, network or cgo call, not sleeping between attempts - it returns state and innermost daemon frame.
func syncLoopHang() string {
	buf := make([]byte, 8<<20)
	buf = buf[:runtime.Stack(buf, true)]
	for _, g := range strings.Split(string(buf), "\n\n") {
		if !strings.Contains(g, "node.(*Pegnetd).DBlockSync") {
			continue
		}
		lines := strings.Split(g, "\n")
		head := lines[0] // goroutine 57 [chan receive, 2 minutes]:
		i, j := strings.Index(head, "["), strings.LastIndex(head, "]")
		if i < 0 || j < i {
			return ""
		}
		state := head[i+1 : j]
		if !strings.Contains(state, "minutes") {
			return ""
		}
		blocked := false
		for _, b := range []string{"chan receive", "chan send", "select", "semacquire", "sync.Mutex.Lock", "sync.WaitGroup.Wait", "sync.Cond.Wait", "sync.RWMutex"} {
			if strings.HasPrefix(state, b) {
				blocked = true
			}
		}
		if !blocked {
			return ""
		}
		frame := ""
		for _, l := range lines[1:] {
			if strings.Contains(l, "github.com/pegnet/pegnetd/") && !strings.HasPrefix(l, "\t") {
				frame = strings.TrimSpace(l)
				if k := strings.Index(frame, "("); k > 0 && strings.HasPrefix(frame, "github.com/pegnet/pegnetd/") {
					frame = strings.TrimPrefix(frame, "github.com/pegnet/pegnetd/")
				}
				break
			}
		}
		if len(frame) > 120 {
			frame = frame[:120]
		}
		return state + " in " + frame
	}
	return ""
}

// Trace collects vdriver events tagged with the height being applied.
type Trace struct {
	mu     sync.Mutex
	Events []vdriver.Event
	fake   *Fake
	on     bool
}

// StartTrace installs recording hooks (replacing any others). Decide may be nil.
func (n *Node) StartTrace(captureSite bool, decide func(ev *vdriver.Event) (vdriver.Action, time.Duration)) *Trace {
	t := &Trace{fake: n.Fake, on: true}
	vdriver.Set(&vdriver.Hooks{
		CaptureSite: captureSite,
		Decide:      decide,
		Record: func(ev *vdriver.Event) {
			t.mu.Lock()
			if t.on {
				e := *ev
				n.Fake.mu.Lock()
				e.Block = n.Fake.cur
				n.Fake.mu.Unlock()
				t.Events = append(t.Events, e)
			}
			t.mu.Unlock()
		},
	})
	return t
}

// Take returns and clears the events recorded so far.
func (t *Trace) Take() []vdriver.Event {
	t.mu.Lock()
	defer t.mu.Unlock()
	ev := t.Events
	t.Events = nil
	return ev
}

// Len returns the number of buffered events.
func (t *Trace) Len() int { t.mu.Lock(); defer t.mu.Unlock(); return len(t.Events) }
