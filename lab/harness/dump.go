package harness

import (
	"crypto/sha256"
	"database/sql"
	"encoding/hex"
	"fmt"
	"os"
	"sort"
	"strings"

	"github.com/Factom-Asset-Tokens/factom"
	_ "github.com/mattn/go-sqlite3"
	"github.com/pegnet/pegnetd/fat/fat2"
)

// LedgerTables are the tables compared by the metamorphic oracles (C01's observe_at list).
var LedgerTables = []string{
	"pn_addresses", "pn_rate", "pn_bank", "pn_history_txbatch", "pn_history_transaction", "pn_history_lookup",
	"pn_transaction_batch_holding", "pn_address_transactions", "pn_winners", "pn_grade",
	"snapshot_current", "snapshot_past", "pn_metadata", "pn_sync_version",
}

// excluded columns per table (row ids, wall-clock values)
var excludedCols = map[string]map[string]bool{
	"pn_addresses":                 {"id": true},
	"snapshot_current":             {"id": true},
	"snapshot_past":                {"id": true},
	"pn_history_txbatch":           {"history_id": true},
	"pn_transaction_batch_holding": {"id": true},
	"pn_sync_version":              {"unix_timestamp": true},
}

// Dump is a canonical dump of the ledger tables.
type Dump struct {
	Tables map[string][]string // table → sorted canonical rows
	Hashes map[string]string
	Total  string
}

// DumpOptions tune the dump.
type DumpOptions struct {
	// DropBackfill removes pn_sync_version rows with version = -1 (start-up bookkeeping
	// written by CheckHardForks on restarts).
	DropBackfill bool
	// Tables restricts the dump (nil = LedgerTables).
	Tables []string
	// KeepRows keeps the rows (otherwise only hashes are kept).
	KeepRows bool
	// Exclude lists additional columns to leave out, as "table.column" (used when the compared
	// chains legitimately differ in block layout: entry positions, entry block key MRs).
	Exclude []string
}

// LayoutColumns are the columns that describe where in a block an entry sat, not what it did.
var LayoutColumns = []string{"pn_history_txbatch.blockorder", "pn_transaction_batch_holding.eblock_keymr", "pn_grade.keymr", "pn_grade.count"}

func renderVal(v interface{}) string {
	switch x := v.(type) {
	case nil:
		return "N"
	case int64:
		return fmt.Sprintf("i%d", x)
	case float64:
		return fmt.Sprintf("f%v", x)
	case []byte:
		return "b" + hex.EncodeToString(x)
	case string:
		return "s" + x
	case bool:
		if x {
			return "i1"
		}
		return "i0"
	default:
		return fmt.Sprintf("?%v", x)
	}
}

// OpenRO opens the lab's own plain connection to the database file (not through the wrapper).
// It is only ever used for reads. mattn's driver issues "PRAGMA journal_mode = DELETE" on every
// open unless told otherwise, which fails with "database is locked" on a WAL database that
// another connection has open – so the journal mode is detected from the file header.
func OpenRO(path string) (*sql.DB, error) {
	dsn := "file:" + path + "?_busy_timeout=10000"
	if IsWAL(path) {
		dsn += "&_journal=WAL"
	}
	db, err := sql.Open("sqlite3", dsn)
	if err != nil {
		return nil, err
	}
	db.SetMaxOpenConns(2)
	return db, nil
}

// IsWAL reads the file-format version bytes of the SQLite header (2 = WAL).
func IsWAL(path string) bool {
	f, err := os.Open(path)
	if err != nil {
		return false
	}
	defer f.Close()
	hdr := make([]byte, 20)
	if n, _ := f.Read(hdr); n < 20 {
		return false
	}
	return hdr[18] == 2 || hdr[19] == 2
}

// TakeDump reads the tables through db.
func TakeDump(db *sql.DB, opt DumpOptions) (*Dump, error) {
	d := &Dump{Tables: map[string][]string{}, Hashes: map[string]string{}}
	tables := opt.Tables
	if tables == nil {
		tables = LedgerTables
	}
	// one read transaction so that the dump is a consistent snapshot
	tx, err := db.Begin()
	if err != nil {
		return nil, err
	}
	defer tx.Rollback()
	total := sha256.New()
	extra := map[string]bool{}
	for _, x := range opt.Exclude {
		extra[x] = true
	}
	for _, t := range tables {
		rows, err := tx.Query("SELECT * FROM " + t)
		if err != nil {
			return nil, fmt.Errorf("dump %s: %v", t, err)
		}
		cols, _ := rows.Columns()
		var out []string
		for rows.Next() {
			vals := make([]interface{}, len(cols))
			ptrs := make([]interface{}, len(cols))
			for i := range vals {
				ptrs[i] = &vals[i]
			}
			if err := rows.Scan(ptrs...); err != nil {
				rows.Close()
				return nil, err
			}
			var sb strings.Builder
			skip := false
			for i, c := range cols {
				if excludedCols[t][c] || extra[t+"."+c] {
					continue
				}
				if opt.DropBackfill && t == "pn_sync_version" && c == "version" {
					if v, ok := vals[i].(int64); ok && v == -1 {
						skip = true
					}
				}
				sb.WriteString(c)
				sb.WriteByte('=')
				sb.WriteString(renderVal(vals[i]))
				sb.WriteByte('|')
			}
			if !skip {
				out = append(out, sb.String())
			}
		}
		if err := rows.Err(); err != nil {
			rows.Close()
			return nil, err
		}
		rows.Close()
		sort.Strings(out)
		h := sha256.New()
		for _, r := range out {
			h.Write([]byte(r))
			h.Write([]byte{'\n'})
		}
		hs := hex.EncodeToString(h.Sum(nil))[:24]
		d.Hashes[t] = hs
		total.Write([]byte(t + ":" + hs + "\n"))
		if opt.KeepRows {
			d.Tables[t] = out
		}
	}
	d.Total = hex.EncodeToString(total.Sum(nil))[:24]
	return d, nil
}

// DiffDumps describes where two dumps differ (needs KeepRows on both for row detail).
func DiffDumps(a, b *Dump) []string {
	var out []string
	var names []string
	for t := range a.Hashes {
		names = append(names, t)
	}
	sort.Strings(names)
	for _, t := range names {
		if a.Hashes[t] == b.Hashes[t] {
			continue
		}
		line := fmt.Sprintf("table %s differs (%s vs %s)", t, a.Hashes[t], b.Hashes[t])
		ra, rb := a.Tables[t], b.Tables[t]
		if ra != nil || rb != nil {
			ma := map[string]bool{}
			for _, r := range ra {
				ma[r] = true
			}
			mb := map[string]bool{}
			for _, r := range rb {
				mb[r] = true
			}
			n := 0
			for _, r := range ra {
				if !mb[r] && n < 4 {
					line += "\n    only in A: " + clip(r, 600)
					n++
				}
			}
			n = 0
			for _, r := range rb {
				if !ma[r] && n < 4 {
					line += "\n    only in B: " + clip(r, 600)
					n++
				}
			}
		}
		out = append(out, line)
	}
	return out
}

func clip(s string, n int) string {
	if len(s) > n {
		return s[:n] + "…"
	}
	return s
}

// Tickers lists every valid ticker.
func Tickers() []fat2.PTicker {
	var out []fat2.PTicker
	for t := fat2.PTickerInvalid + 1; t < fat2.PTickerMax; t++ {
		out = append(out, t)
	}
	return out
}

// Balances is the content of pn_addresses (or a snapshot table): address → ticker → amount.
type Balances map[factom.FAAddress]map[fat2.PTicker]uint64

// Get returns a balance (0 when absent).
func (b Balances) Get(a factom.FAAddress, t fat2.PTicker) uint64 {
	if m, ok := b[a]; ok {
		return m[t]
	}
	return 0
}

// Has reports whether the address has a row.
func (b Balances) Has(a factom.FAAddress) bool { _, ok := b[a]; return ok }

// ReadBalances reads a whole balance table ("pn_addresses", "snapshot_current", "snapshot_past").
// Negative values (which must never exist) are reported through neg.
func ReadBalances(q interface {
	Query(string, ...interface{}) (*sql.Rows, error)
}, table string) (Balances, []string, error) {
	tickers := Tickers()
	cols := []string{"address"}
	for _, t := range tickers {
		cols = append(cols, strings.ToLower(t.String())+"_balance")
	}
	rows, err := q.Query("SELECT " + strings.Join(cols, ",") + " FROM " + table)
	if err != nil {
		return nil, nil, err
	}
	defer rows.Close()
	out := Balances{}
	var neg []string
	for rows.Next() {
		var addr []byte
		vals := make([]int64, len(tickers))
		ptrs := []interface{}{&addr}
		for i := range vals {
			ptrs = append(ptrs, &vals[i])
		}
		if err := rows.Scan(ptrs...); err != nil {
			return nil, nil, err
		}
		var fa factom.FAAddress
		copy(fa[:], addr)
		m := map[fat2.PTicker]uint64{}
		for i, t := range tickers {
			if vals[i] < 0 {
				neg = append(neg, fmt.Sprintf("%s %s = %d", fa, t, vals[i]))
				continue
			}
			if vals[i] != 0 {
				m[t] = uint64(vals[i])
			}
		}
		out[fa] = m
	}
	return out, neg, rows.Err()
}

// Supply sums every column.
func (b Balances) Supply() map[fat2.PTicker]uint64 {
	out := map[fat2.PTicker]uint64{}
	for _, m := range b {
		for t, v := range m {
			out[t] += v
		}
	}
	return out
}

// ReadRates returns pn_rate rows of one height as ticker-name → value (names as stored, e.g. "pUSD", "PEG").
func ReadRates(q interface {
	Query(string, ...interface{}) (*sql.Rows, error)
}, height uint32) (map[string]uint64, error) {
	rows, err := q.Query("SELECT token, value FROM pn_rate WHERE height = ?", height)
	if err != nil {
		return nil, err
	}
	defer rows.Close()
	out := map[string]uint64{}
	for rows.Next() {
		var tok string
		var v int64
		if err := rows.Scan(&tok, &v); err != nil {
			return nil, err
		}
		out[tok] = uint64(v)
	}
	return out, rows.Err()
}

// RatesByTicker converts stored names to tickers (unknown names dropped).
func RatesByTicker(m map[string]uint64) map[fat2.PTicker]uint64 {
	out := map[fat2.PTicker]uint64{}
	for k, v := range m {
		if t := fat2.StringToTicker(k); t != fat2.PTickerInvalid {
			out[t] = v
		}
	}
	return out
}
