// Package harness runs the real pegnetd node code against a fake factomd and
// an observed database.
package harness

import (
	"verif/lab/vdriver"
	"bytes"
	"encoding/hex"
	"encoding/json"
	"errors"
	"io"
	"net/http"
	"sync"
	"time"

	"github.com/Factom-Asset-Tokens/factom"
	"verif/lab/forge"
)

// Req is one request seen by the fake factomd.
type Req struct {
	Seq    int
	Method string
	Height uint32         // by-height requests
	Hash   factom.Bytes32 // raw-data requests
	// Cur is the height most recently asked for by dblock-by-height: the block being applied.
	Cur uint32
	// Nth occurrence (1-based) of the same (method, height|hash) while Cur was current, counted over all attempts.
	Nth int
}

// FaultKind enumerates upstream failures.
type FaultKind int

const (
	NoFault    FaultKind = iota
	RPCError             // JSON-RPC error object
	HTTP500              // HTTP 500 with a text body
	Truncated            // body cut in half
	ConnReset            // transport error
	Delay                // delayed answer, otherwise fine
	BadPayload           // syntactically valid answer with corrupted data (one byte flipped)
)

func (k FaultKind) String() string {
	return [...]string{"none", "rpc-error", "http-500", "truncated", "conn-reset", "delay", "bad-payload"}[k]
}

// Fault is the decision for one request.
type Fault struct {
	Kind  FaultKind
	Delay time.Duration
}

// Fake is an in-process fake factomd (http.RoundTripper).
type Fake struct {
	Chain *forge.Chain

	mu       sync.Mutex
	cap      uint32 // reported tip = min(chain tip, cap); 0 = no cap
	reqs     []Req
	logReqs  bool
	seq      int
	cur      uint32
	dcount   map[uint32]int // dblock-by-height requests per height
	occ      map[string]int
	faultFn  func(r Req) Fault
	onHeight func()
	hsig     chan struct{} // signalled on every `heights` request
	idle     int           // consecutive `heights` requests without any other request
	injected int
}

func NewFake(c *forge.Chain) *Fake {
	return &Fake{Chain: c, dcount: map[uint32]int{}, occ: map[string]int{}, hsig: make(chan struct{}, 1)}
}

// SetCap limits the tip the fake reports (0 removes the limit).
func (f *Fake) SetCap(h uint32) { f.mu.Lock(); f.cap = h; f.idle = 0; f.mu.Unlock() }

// SetFault installs the fault decision function (nil removes it).
func (f *Fake) SetFault(fn func(r Req) Fault) { f.mu.Lock(); f.faultFn = fn; f.mu.Unlock() }

// LogRequests turns the request log on/off.
func (f *Fake) LogRequests(on bool) { f.mu.Lock(); f.logReqs = on; f.mu.Unlock() }

// Requests returns a copy of the request log.
func (f *Fake) Requests() []Req {
	f.mu.Lock()
	defer f.mu.Unlock()
	return append([]Req{}, f.reqs...)
}

// ClearRequests drops the request log.
func (f *Fake) ClearRequests() { f.mu.Lock(); f.reqs = nil; f.mu.Unlock() }

// DBlockRequests returns how often dblock-by-height was asked for h.
func (f *Fake) DBlockRequests(h uint32) int { f.mu.Lock(); defer f.mu.Unlock(); return f.dcount[h] }

// Injected returns the number of faults injected so far.
func (f *Fake) Injected() int { f.mu.Lock(); defer f.mu.Unlock(); return f.injected }

// TotalRequests returns the number of requests served.
func (f *Fake) TotalRequests() int { f.mu.Lock(); defer f.mu.Unlock(); return f.seq }

// Cur returns the height of the directory block the daemon asked for last.
func (f *Fake) Cur() uint32 { f.mu.Lock(); defer f.mu.Unlock(); return f.cur }

// IdlePolls returns how many times in a row the daemon has asked for `heights` without asking for anything else
// since (and since the cap was last raised): a daemon with work to do asks for the next directory block right
// after the first such answer.
func (f *Fake) IdlePolls() int { f.mu.Lock(); defer f.mu.Unlock(); return f.idle }

// HeightsSignal is signalled (non-blocking) each time the daemon asks for `heights`,
// i.e. each time it is between block attempts.
func (f *Fake) HeightsSignal() <-chan struct{} { return f.hsig }

func (f *Fake) tip() uint32 {
	t := f.Chain.GetTip()
	if f.cap != 0 && f.cap < t {
		t = f.cap
	}
	return t
}

func (f *Fake) RoundTrip(r *http.Request) (*http.Response, error) {
	body, _ := io.ReadAll(r.Body)
	r.Body.Close()
	var req struct {
		ID     json.RawMessage `json:"id"`
		Method string          `json:"method"`
		Params json.RawMessage `json:"params"`
	}
	json.Unmarshal(body, &req)

	rq := Req{Method: req.Method}
	switch req.Method {
	case "dblock-by-height", "fblock-by-height":
		var p struct{ Height uint32 }
		json.Unmarshal(req.Params, &p)
		rq.Height = p.Height
	case "raw-data":
		var p struct{ Hash factom.Bytes32 }
		json.Unmarshal(req.Params, &p)
		rq.Hash = p.Hash
	}

	fromSync := req.Method == "heights" && vdriver.CallerHas("node.(*Pegnetd).DBlockSync")
	f.mu.Lock()
	f.seq++
	rq.Seq = f.seq
	if req.Method == "dblock-by-height" {
		f.cur = rq.Height
		f.dcount[rq.Height]++
	}
	if req.Method == "heights" {
		// only the sync loop's own polls count (the API's get-sync-status asks the upstream node for its height too)
		if fromSync {
			f.idle++
		}
	} else {
		f.idle = 0
	}
	rq.Cur = f.cur
	key := req.Method + "/" + hex.EncodeToString(rq.Hash[:8]) + "/" + itoa(int(rq.Height)) + "/" + itoa(int(rq.Cur))
	f.occ[key]++
	rq.Nth = f.occ[key]
	if f.logReqs {
		f.reqs = append(f.reqs, rq)
	}
	fn := f.faultFn
	tip := f.tip()
	f.mu.Unlock()

	if req.Method == "heights" {
		select {
		case f.hsig <- struct{}{}:
		default:
		}
	}

	var fault Fault
	if fn != nil {
		fault = fn(rq)
		if fault.Kind != NoFault && fault.Kind != Delay {
			f.mu.Lock()
			f.injected++
			f.mu.Unlock()
		}
	}
	if fault.Kind == Delay || fault.Delay > 0 {
		time.Sleep(fault.Delay)
	}
	if fault.Kind == ConnReset {
		return nil, errors.New("verif: injected connection reset")
	}
	if fault.Kind == HTTP500 {
		return &http.Response{StatusCode: 500, Status: "500 Internal Server Error",
			Body: io.NopCloser(bytes.NewReader([]byte("verif: injected upstream failure"))), Header: http.Header{}, Request: r}, nil
	}

	var result interface{}
	var rerr interface{}
	corrupt := func(b []byte) []byte {
		if fault.Kind == BadPayload && len(b) > 40 {
			c := append([]byte{}, b...)
			c[len(c)/2] ^= 0x01
			return c
		}
		return b
	}
	switch req.Method {
	case "heights":
		result = map[string]uint32{"directoryblockheight": tip, "leaderheight": tip, "entryblockheight": tip, "entryheight": tip}
	case "dblock-by-height":
		b := f.Chain.Get(rq.Height)
		if b == nil || rq.Height > tip {
			rerr = map[string]interface{}{"code": -32008, "message": "Block not found"}
		} else {
			result = map[string]interface{}{
				"dblock":  map[string]string{"keymr": hex.EncodeToString(b.KeyMR[:])},
				"rawdata": hex.EncodeToString(corrupt(b.DBlock)),
			}
		}
	case "raw-data":
		d, ok := f.Chain.Lookup(rq.Hash, rq.Cur)
		if !ok {
			rerr = map[string]interface{}{"code": -32008, "message": "Entry not found"}
		} else {
			result = map[string]string{"data": hex.EncodeToString(corrupt(d))}
		}
	case "fblock-by-height":
		b := f.Chain.Get(rq.Height)
		if b == nil {
			rerr = map[string]interface{}{"code": -32008, "message": "Block not found"}
		} else {
			result = map[string]string{"rawdata": hex.EncodeToString(corrupt(b.FBlock))}
		}
	default:
		rerr = map[string]interface{}{"code": -32601, "message": "Method not found"}
	}
	if fault.Kind == RPCError {
		result = nil
		rerr = map[string]interface{}{"code": -32603, "message": "verif: injected internal error"}
	}
	resp := map[string]interface{}{"jsonrpc": "2.0", "id": req.ID}
	if rerr != nil {
		resp["error"] = rerr
	} else {
		resp["result"] = result
	}
	out, _ := json.Marshal(resp)
	if fault.Kind == Truncated {
		out = out[:len(out)/2]
	}
	return &http.Response{StatusCode: 200, Status: "200 OK", Body: io.NopCloser(bytes.NewReader(out)),
		Header: http.Header{"Content-Type": []string{"application/json"}}, Request: r}, nil
}

func itoa(i int) string {
	if i == 0 {
		return "0"
	}
	neg := i < 0
	if neg {
		i = -i
	}
	var b [20]byte
	p := len(b)
	for i > 0 {
		p--
		b[p] = byte('0' + i%10)
		i /= 10
	}
	if neg {
		p--
		b[p] = '-'
	}
	return string(b[p:])
}
